#!/bin/bash
# Runs every quick check on /repo as it is (must be clean) and prints one line per check; refreshes evidence/.
cd /verif
git -C /repo status --short | grep -q . && { echo "/repo not clean"; exit 2; }
rc=0
for c in C01 C02 C03 C04 C05 C06 C07 C08 C09 C10 C11 C12 C13 C14 C15 C16 C17 C18; do
  s=$(date +%s); out=$(./check $c --tier ${1:-quick} 2>&1); code=$?; e=$(date +%s)
  echo "$c exit=$code t=$((e-s))s $(echo "$out" | tail -1 | cut -c1-220)"
  [ $code -ne 0 ] && { rc=1; echo "$out" | grep -A1 "VIOLATION\|machinery" | head -6 | cut -c1-400; }
done
exit $rc
