#!/usr/bin/env python3
"""Generates /verif/MANIFEST.json from the table below."""
import json, subprocess

PROPS = [json.loads(l) for l in open('/verif/properties.jsonl')]

# property -> (engine, category, technique, level text, level note, design ref)
LP = "lazy-program exhaustive exploration of the real crate + spec monitor"
CHECKS = {
 "C01": ("cobweb-mc", "model_checking", LP,
         "Histories of register (new reactor in each mode / existing reactor) / revoke / fire / despawn over trigger groups that share keys (broadcast + entity event + any-entity-event on one event type; insertion + mutation tables of one component, type-wide and entity-scoped; resource + entity-scoped), at top level (depth D) and from reactor bodies while a dispatch is in flight (budget N). Every fire must produce exactly one reaction command per live matching registration in the abstract table (none missing, none foreign) and the implementation's tables (hook snapshot) must equal the abstract table at every quiescent point.",
         "Bounded (D<=4/N<=3 quick, D<=5/N<=4 thorough); bundles include (entity-scoped trigger, type-wide trigger) pairs; a `hist-world` series fires through the World-level API; an `ewr` series registers / removes through an entity world reactor (EntityCommands::add_world_reactor, EntityReactor::remove) next to ordinary registrations; a `removals` group (polled triggers) reports the polled rules of C08 as well; the in-tree scripts despawn a trigger entity in the same batch as operations on it; two separate revokable registrations of one reactor for one trigger are not generated.", "DESIGN.md 5 C01, 11.2"),
 "C06": ("cobweb-mc", "model_checking", LP,
         "C01's histories with multi-trigger bundles (pair across kinds, pair of one kind, triple including a despawn trigger) and revocation at every position (top level, in-tree, twice, of a dead reactor); after a revoke the very next fire must not reach the revoked (reactor, trigger) and all other registrations must be unchanged (dispatch + table cross-check).",
         "Bounded (D<=4/N<=3 quick, D<=5/N<=4 thorough); bundles include a despawn trigger on an entity the histories can despawn (revocation between a despawn and its detection); an `ewr` series revokes by removing triggers from an entity world reactor; a `removals` group (type-wide and entity-scoped removal reactors sharing one tracker) reports the polled rules of C08 as well; the in-tree series end with a second top-level trigger and hold a reactor with two separately revokable registrations.", "DESIGN.md 5 C06"),
 "C07": ("cobweb-mc", "model_checking", LP,
         "Histories of registering new reactors (3 modes x 7 bundles incl. empty, despawn triggers, entity triggers possibly naming dead entities), revoke, fire, despawn of trigger entities, explicit Gc / Poll, fires from inside runs. Liveness of every reactor is sampled at every command marker and compared with an abstract reference count (live registrations + pending despawn reactions); after the first garbage collection following count 0 the reactor must be gone and its captured canary dropped; persistent reactors must always exist.",
         "Bounded (D<=4 quick, D<=6 thorough); several ref-counted registrations of one system command are documented as unsupported and not generated; an `app-persistent` series has reactors added with App::add_reactor whose triggers are all entity-bound.", "DESIGN.md 5 C07"),
 "C08": ("cobweb-mc", "model_checking", LP,
         "Histories of insert / remove / re-insert / despawn / recursive despawn (entity 1 is a child of entity 0) at top level and inside reactor runs, with type-wide and entity-scoped removal reactors, one or two despawn reactors per entity, a reactor registered mid-history; polls explicit ('flush') or by App::update after every top-level op ('frames', Last schedule). A hook reports when a poll schedules a reaction; the monitor requires a cause for every scheduled reaction (an unreacted removal / despawn for a registration live at that moment), at most one per registration per event, every registration live throughout reacted by the end of the enclosing tree / next poll, and every scheduled reaction run by quiescence.",
         "Bounded (D<=4 quick, D<=6 thorough); series: flush, frames, systems-chained / systems-unordered (operations issued by real Update systems, every assignment = every order), entity-only, two-comps-ab/ba (two reactive component types polled by one pass), despawn-many (several polled reactions of one ref-counted reactor postponed at once), orphan-tracker (an entity that kept its despawn tracker after its only reactor was revoked), frames-plugin-late (reactors added with App::add_reactor before ReactPlugin).", "DESIGN.md 5 C08, 11.2"),
 "C14": ("cobweb-mc", "model_checking", LP,
         "Every accessor (get_mut, set_if_neq equal/different, get_noreact, read, trigger_mutation, trigger_resource_mutation, ReactCommands::insert with value 0/1) on entities that are alive, lack the component, or are despawned between queuing and applying, 1..3 calls per run, with a probe reactor registered type-wide and entity-scoped: reaction count per call (dispatch rule), stored component / resource values (sampled at every marker) must match the abstract state.",
         "Bounded (N<=3 quick, N<=5 thorough); three routes: ReactiveMut / ReactResMut in a syscall issued by the command and body-time accessors of the issuing system (`accessors`), the single* convenience accessors whenever exactly one entity carries the component (`accessors-single`), the World-level API (`accessors-world`), and `accessors-observer` (a plain Bevy observer on OnInsert mirrors inserts onto a second entity through ReactCommands, between an insert and the scheduling of its reactions).", "DESIGN.md 5 C14, 11.2"),
 "C15": ("cobweb-mc", "model_checking", LP,
         "Histories of one-off reactors (7 bundles incl. empty and multi-trigger), fires at top level and from inside runs (self-triggering, several triggers in one tree), revoke at any point, Gc: at most one run, entity gone and no registration left afterwards (dispatch + table cross-check + liveness), dropped without running for an empty bundle.",
         "Bounded (D<=4 quick, D<=6 thorough).", "DESIGN.md 5 C15"),
 "C18": ("cobweb-mc", "model_checking", "exhaustive fault enumeration (despawn points x operations) by lazy-program exploration of the real crate + spec monitor",
         "Every public operation naming a system, reactor or entity (run, system event, entity event, insert, mutate, trigger, remove, register existing/new reactor with entity and despawn triggers, revoke) combined with despawns of its target at every point the lazy-program enumeration can place them (before queuing, between queuing and applying, after scheduling, while postponed, during the target's own run), singly and in pairs up to the budget: no panic, nothing runs for a dead target, payloads released, other registrations intact (table cross-check).",
         "Bounded (N<=3 quick, N<=4 thorough).", "DESIGN.md 5 C18"),
 "C10": ("cobweb-mc+loom", "model_checking", "explicit-state BFS to a fixed point (sequential) + loom exhaustive interleavings of the real auto_despawn.rs (concurrent)",
         "Sequential: every history of prepare / clone / drop / gc / manual despawn / reparent / giving one clone to a component of another entity (ownership chain: the clone drops when its owner is despawned, possibly during a collection pass; judged after the following pass) / leaving a cobweb system command on the world's command queue (it then runs in the middle of whichever operation flushes the world, possibly a collection) over 3 entities and <= 4 live clones is explored to the fixed point of the reachable (reference-model state, observed liveness, pending-signal count) set (about 250k states with the parametric burst operation (300 entities; thorough also 3000), depth 13), each transition re-executed on the real AutoDespawner / garbage_collect_entities in a fresh App and compared with a counter model (never despawned while a clone exists, despawned with descendants by the first gc after the last drop, exactly one signal per last drop, gc idempotent). Concurrent: loom explores all interleavings (complete DPOR for three 2-worker scenarios; preemption bound 6 for two larger ones in the thorough tier) of clone drops on worker threads against garbage collection on the main thread, on the real source file compiled against loom.",
         "loom models std::sync::Arc; crossbeam's channel is replaced by a linearizable FIFO on loom primitives; if auto_despawn.rs stops compiling stand-alone the loom leg is skipped (reported in the evidence), never turned into a verdict.", "DESIGN.md 5 C10"),
 "C16": ("cobweb-mc", "model_checking", "explicit-state BFS over histories of the real crate against a reference model",
         "All histories (depth 5 quick, 8 thorough) of add / remove-subset / remove-bundle-spanning-both-entities / fire / despawn / manual run over one WorldReactor and two EntityWorldReactors with two triggers each and two entities, plus a second WorldReactor registered with starting triggers before the plugin is added and a plain reactor added with App::add_reactor, a third with type-wide component triggers a fourth with any_entity_event of the event type the first takes as a broadcast and a fifth with despawn triggers; a reference model predicts the exact multiset of runs, the local data each run exposes (as modified by earlier runs), presence of the local-data component on every entity after every step, and that the three reactor systems are never despawned or duplicated.",
         "Bounded depth; registration multiplicity per trigger capped at 2; states are merged only if the reference-model state AND the implementation's registration tables agree.", "DESIGN.md 5 C16"),
 "C17": ("cobweb-mc", "model_checking", "explicit-state BFS over call sequences of the real crate against a reference map",
         "All sequences (depth 3 quick, 5 thorough) of calls through syscall / named_syscall / spawned_syscall over 15 targets (ordinary systems f and g - g takes its Commands inside a ParamSet -, a unit-output system h called directly and through Commands::syscall, an exclusive system x, a self-despawning spawned system, syscall_once; two names; three spawned ids; a missing id), each optionally with a chain of nested calls (2 levels quick, 3 thorough) made from the commands the enclosing call queues; a reference map key -> (counter, change-detection cursor) predicts every run, its Local counter, the number of Added<Marker> entities it sees, input, output, command application before return, and Err-without-run for missing / running spawned systems.",
         "Same-key recursion modelled as documented (inner state does not persist); keys that differ only by an interchangeable label (g after f, name n1 after n0, second spawned id after the first) are pruned by restricted growth.", "DESIGN.md 5 C17, 11.2"),
 "C02": ("cobweb-mc", "model_checking", LP,
         "Every program with at most N chosen operations over {Run, SysEvent, DespawnSys}x3 actors + Broadcast (preset listeners; plain, erring and exclusive systems; one or two trees) is executed on the real crate; the spec monitor requires for every command the runner reaches exactly one of run / postponed-while-busy / dropped-because-dead, exactly one run per obligation, and nothing pending when the flush returns.",
         "Bounded (N<=4 quick, N<=6 thorough); a `plain3-L1-world` series issues the same programs through SystemCommand::apply / World::send_system_event / World::broadcast; a `despawn-rc` series has ref-counted despawn reactors whose reactions are postponed; a `runs-only` series explores recursion shapes over three systems up to seven runs; hooks only observe; harness marker commands are plain closures.", "DESIGN.md 5 C02"),
 "C03": ("cobweb-mc", "model_checking", LP,
         "Kind-rich programs (2 actors registered for every trigger kind, type-wide and entity-scoped; 2 entities) enumerated exhaustively up to N operations; at the start of every run all 12 readers are sampled and must equal exactly the data of the obligation the run discharges (every assignment consistent with per-sender order is tracked for interchangeable postponed deliveries).",
         "Bounded (N<=3 quick, N<=5 thorough); series rich, tops, faults (listeners that die while events are in flight), variants (exclusive / erring reactors), rich-world (World-level API), excl-flush (exclusive reactor that flushes the world queue before reading: KNOWN-FINDING F6, exit 0); payloads identified by unique ids.", "DESIGN.md 5 C03, 11.4"),
 "C04": ("cobweb-mc", "model_checking", LP,
         "Same programs as C03 plus a probe actor with no registrations run at every script position, an exclusive reactor and an erring reactor; any reader returning data the run's cause does not carry is a violation, as is a second successful SystemEvent::take.",
         "Bounded (N<=3 quick, N<=5 thorough); a `faults` series aborts deliveries (targets despawned between queuing and applying) and then runs a probe that reacts to nothing; a `once` series has one-off reactors as event readers; a `deferred` series has reactors that queue through DeferredWorld::commands() (world queue), judged for reader visibility only.", "DESIGN.md 5 C04"),
 "C05": ("cobweb-mc", "model_checking", LP,
         "Events with 0..3 listeners (entity-scoped + type-wide, taking and non-taking readers) and fault operations (despawn listener, despawn / recursive despawn of the target entity) placed by earlier listeners between scheduling and running; every payload logs its own Drop; the monitor requires exactly one drop, not before its last live reader finished, immediately when nobody listens, before the tree ends, and no data entity at quiescence.",
         "Bounded (N<=4 quick, N<=6 thorough); series faults, faults-world, single, variants, mixed (component / resource reactions nested between the readers of an event), excl-flush (KNOWN-FINDING F6b, exit 0); payload Drop is observed through the payload's own Drop impl.", "DESIGN.md 5 C05, 11.4"),
 "C09": ("cobweb-mc", "model_checking", LP,
         "Runner-core programs with plain commands and kind-rich programs; at every command boundary of every frame the monitor requires that everything the previous command caused is finished or waits for a system that is still executing (weak reading of 'immediately', see DESIGN 3.2), commands of a run are applied in queue order, and postponed commands are replayed before the next command queued after the busy execution's in-line ancestor.",
         "Bounded (N<=5 quick, N<=6 thorough); series core+nop, core+despawn (systems that vanish during their own run), mixed3+nop (exclusive / erring), rich2; cross-sender order of postponed commands is recorded, not judged; a postponed command of a live system that is discarded or dropped on replay is a violation; polled-postponed: several polled reactions of one ref-counted reactor postponed at once.", "DESIGN.md 5 C09"),
 "C11": ("cobweb-mc", "model_checking", LP,
         "At every quiescent point (after every top-level flush) of runner-core and kind-rich programs with several trees per world the framework snapshot (hook) must show counter 0, empty buffer, empty prepared lists, cleared flags, no held handle, every system command with its callback, no scratch commands.",
         "Series core3-trees, rich2, probe (differential: a fixed probe tree after arbitrary trees must equal the probe tree on a fresh world), chain / chain-watched (auto-despawned trigger entities), owned (a closure owns the last signal of a watched entity and its system vanishes during its own run), once-life, strip, orphan-tracker (despawn notices left in the channel). Snapshot accessors are read-only hooks.", "DESIGN.md 5 C11, 11.6"),
 "C12": ("cobweb-mc", "model_checking", LP,
         "One or two sender runs delivering up to N items of every mix of kinds to busy and idle targets; for postponed deliveries all assignments of runs to pending deliveries are tracked (NFA over per-sender queues) and a violation is reported only if no assignment respects every sender's order.",
         "Bounded (N<=4 quick, N<=6 thorough); exclusive / erring senders and targets in the deliver2-excl-plain / deliver2-err-excl series; tops-polled sends from the top level while removals wait to be polled; the data rules ('each with its own data') are reported here too.", "DESIGN.md 5 C12"),
 "C13": ("cobweb-mc", "model_checking", LP,
         "Runner-core programs over three registrations of the same closure type (plus exclusive / erring variants): at every run Local counter == captured counter == number of earlier runs of that registration.",
         "Bounded (N<=4 quick, N<=6 thorough); a `frames` series puts App::update (which clears the world's change trackers) between the trees of exclusive systems; an `app-reactors` series registers three reactors of one closure type through App::add_reactor; `tag-sys` moves a system's own entity to another archetype during its run; `big-tree` runs one tree of 4200 commands (fixed script) and then the same systems from the top level.", "DESIGN.md 5 C13"),
}

def main():
    checks = []
    for p in PROPS:
        pid = p["id"]
        if pid not in CHECKS: continue
        eng, cat, tech, text, note, ref = CHECKS[pid]
        checks.append({
            "property_id": pid,
            "quick_cmd": f"./check {pid} --tier quick",
            "thorough_cmd": f"./check {pid} --tier thorough",
            "evidence_file": f"/verif/evidence/{pid}.json",
            "replay_cmd_template": f"./check {pid} --replay {{path}}",
            "engine": eng,
            "level_claimed": {"category": cat, "text": text, "design_ref": ref},
            "level_note": note,
            "technique": tech,
        })
    na = [{"property_id": p["id"], "reason": "check under construction in this round; not yet claimed"} for p in PROPS if p["id"] not in CHECKS]
    commits = subprocess.run(["git", "-C", "/repo", "log", "--format=%h %s"], capture_output=True, text=True).stdout.splitlines()
    hook_commits = [c.split()[0] for c in commits if c.split(' ', 1)[1].startswith("verif:")]
    m = {
        "version": 1,
        "setup_cmd": "cd /verif/mc && CARGO_NET_OFFLINE=true cargo build --offline --profile mc -p cobweb-mc && (CARGO_NET_OFFLINE=true cargo build --offline --profile mc -p loom-c10 || true)",
        "hooks": {
            "guard": "cargo feature `verif` of bevy_cobweb (src/verif.rs and #[cfg(feature = \"verif\")] lines)",
            "enable": "the harness crate /verif/mc/harness depends on bevy_cobweb { path = \"/repo\", features = [\"verif\"] }",
            "baseline_off_cmd": "cd /repo && cargo test --workspace --no-fail-fast --offline",
            "source_commits": hook_commits,
            "add_only": True,
        },
        "engines": [
            {"name": "loom-c10", "path": "/verif/mc/loom-c10", "serves_properties": ["C10"],
             "kind_free_text": "loom model of the real src/ecs/auto_despawn.rs (copied at build time, std::sync::Arc -> loom::sync::Arc), run as a child process of the C10 check"},
            {"name": "cobweb-mc", "path": "/verif/mc/harness", "serves_properties": sorted(CHECKS.keys()),
             "kind_free_text": "stateless exhaustive explorer (odometer DFS over choice sequences, 16 threads) driving the real crate in a real bevy App; spec monitor judges every execution"},
        ],
        "checks": checks,
        "not_applicable": na,
        "notes": "See DESIGN.md. Exit 2 of a check is a machinery failure, never a verdict. known_findings.json lists fixed defects (fix: commits in /repo).",
    }
    json.dump(m, open('/verif/MANIFEST.json', 'w'), indent=1)
    print("checks:", len(checks), "not_applicable:", len(na))

main()
