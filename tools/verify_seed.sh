#!/bin/bash
# usage: verify_seed.sh <ID> <worktree>   -- confirms a sub-agent's seeded change in its scratch worktree
# 1. with change + demo: 81 pass, seed_demo fails; 2. change reverted: all pass (82).
ID=$1; WT=$2
cd "$WT" || exit 2
git apply --check -R SEED/patch.diff 2>/dev/null || { echo "$ID: patch not applied in worktree?"; }
with=$(cargo test --workspace --no-fail-fast --offline 2>&1 | grep "^test result" | head -1)
failed=$(cargo test --workspace --no-fail-fast --offline 2>&1 | grep -E "^test .*FAILED" | tr '\n' ' ')
git apply -R SEED/patch.diff || { echo "$ID: cannot revert"; exit 2; }
without=$(cargo test --workspace --no-fail-fast --offline 2>&1 | grep "^test result" | head -1)
git apply SEED/patch.diff
echo "$ID WITH: $with [$failed]"
echo "$ID WITHOUT: $without"
