#!/bin/bash
# usage: try_mutant.sh <seed-dir> <checks...> : applies patch, runs the repo suite and the given quick checks, reverts.
SEED=$1; shift
cd /repo && git status --short | grep -q . && { echo "/repo not clean"; exit 2; }
git apply /verif/$SEED/patch.diff || { echo "$SEED: patch does not apply"; exit 2; }
suite=$(cargo test --workspace --no-fail-fast --offline 2>&1 | grep "^test result" | head -1 | sed 's/; 0 ignored.*//')
echo "$SEED suite: $suite"
for c in "$@"; do
  out=$(cd /verif && timeout 900 ./check $c --tier quick 2>&1); code=$?
  echo "  $c exit=$code $(echo "$out" | grep -m1 'signature=' | cut -c1-170)"
done
git -C /repo checkout -- .
