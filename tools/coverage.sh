#!/bin/bash
# Diagnostic (not a check): which lines of /repo/src do the quick tiers execute?  Builds an instrumented copy of the
# harness with the nightly toolchain into /tmp/cov (removed at the end), runs every quick check with a generous cap and
# prints the lines of selected files that were never executed. Used to find holes in the alphabets.
set -u
B=/root/.rustup/toolchains/nightly-x86_64-unknown-linux-gnu/lib/rustlib/x86_64-unknown-linux-gnu/bin
T=/tmp/cov
rm -rf $T; mkdir -p $T/prof $T/out
cd /verif/mc || exit 2
CARGO_TARGET_DIR=$T/target RUSTFLAGS="-C instrument-coverage" LLVM_PROFILE_FILE=$T/prof/build-%p.profraw \
  cargo +nightly build --offline --profile mc -p cobweb-mc >$T/build.log 2>&1 || { tail -20 $T/build.log; exit 2; }
cd /verif
for c in C01 C02 C03 C04 C05 C06 C07 C08 C09 C10 C11 C12 C13 C14 C15 C16 C17 C18; do
  LLVM_PROFILE_FILE=$T/prof/$c-%p.profraw VERIF_QUICK_CAP_S=${COV_CAP_S:-400} VERIF_OUT_DIR=$T/out $T/target/mc/cobweb-mc check $c --tier quick 2>&1 | tail -1 | cut -c1-120
done
$B/llvm-profdata merge -sparse $T/prof/C*.profraw -o $T/cov.profdata
$B/llvm-cov show $T/target/mc/cobweb-mc -instr-profile=$T/cov.profdata --ignore-filename-regex='(registry|rustc|verif/mc)' --show-instantiations=false 2>/dev/null > $T/cov.txt
python3 - <<'EOF'
import re
cur=None; out={}
for line in open('/tmp/cov/cov.txt'):
    m=re.match(r'^(/repo/src/\S+):$', line.strip())
    if m: cur=m.group(1); out[cur]=[]; continue
    m=re.match(r'^\s*(\d+)\|\s*0\|(.*)$', line.rstrip('\n'))
    if m and cur: out[cur].append((int(m.group(1)), m.group(2)))
for k in sorted(out):
    v=[(n,t) for n,t in out[k] if t.strip() and not t.strip().startswith('//')]
    if not v: continue
    print('=====',k, len(v),'lines never executed')
    for n,t in v: print(f'{n:5d} {t}')
EOF
rm -rf $T /repo/*.profraw /verif/*.profraw /verif/mc/*.profraw
