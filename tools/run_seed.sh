#!/bin/bash
# usage: run_seed.sh <seed-dir> [tier] [checks...]  -- applies a seeded change to /repo, runs checks, reverts.
SEED=$1; TIER=${2:-quick}; shift 2
CHECKS=${@:-C01 C02 C03 C04 C05 C06 C07 C08 C09 C10 C11 C12 C13 C14 C15 C16 C17 C18}
cd /repo && git status --short | grep -q . && { echo "/repo not clean"; exit 2; }
git -C /repo apply /verif/$SEED/patch.diff || { echo "patch does not apply"; exit 2; }
for c in $CHECKS; do
  out=$(cd /verif && timeout 900 ./check $c --tier $TIER 2>&1); code=$?
  n=$(echo "$out" | grep -c "^VIOLATION")
  echo "$SEED $c exit=$code violations=$n $(echo "$out" | grep -m1 'signature=' | cut -c1-160)"
done
git -C /repo checkout -- . 
