#!/bin/bash
# usage: regress_seeds.sh [seed-dir-glob]   (default: all of /verif/seeded/*, /verif/seeded/own/*)
# Runs every quick check against every seeded change in an ISOLATED rig (a scratch git worktree of /repo plus a copy of
# the harness pointing at it, under /tmp/reg), so /repo and /verif/evidence are not touched and normal work can go on.
# Output: one line per (seed, check) with exit code; summary per seed "caught by: ...". Removes the rig at the end.
# The loom leg of C10 is not part of the rig (its binary path is fixed); C10 is judged by its sequential leg here.
set -u
RIG=/tmp/reg
PAT=${1:-}
rm -rf $RIG; mkdir -p $RIG/out
git -C /repo worktree prune
git -C /repo worktree add --detach $RIG/repo HEAD >/dev/null 2>&1 || { echo "cannot create worktree"; exit 2; }
mkdir -p $RIG/mc
rsync -a --exclude target /verif/mc/ $RIG/mc/
cp -r /verif/mc/target $RIG/mc/target 2>/dev/null
sed -i "s#path = \"/repo\"#path = \"$RIG/repo\"#" $RIG/mc/harness/Cargo.toml
sed -i "s#/repo/src#$RIG/repo/src#g" $RIG/mc/loom-c10/build.rs
ALL="C01 C02 C03 C04 C05 C06 C07 C08 C09 C10 C11 C12 C13 C14 C15 C16 C17 C18"
# REGRESS_MODE=meta: run only the checks that the seed's meta.json lists under caught_by (much faster)
MODE=${REGRESS_MODE:-all}
seeds=$(ls -d /verif/seeded/r*-C* /verif/seeded/own/* 2>/dev/null)
for s in $seeds; do
  name=${s#/verif/seeded/}
  if [ -n "$PAT" ] && [[ "$name" != $PAT ]]; then continue; fi
  [ -f $s/patch.diff ] || continue
  git -C $RIG/repo checkout -q -- . ; git -C $RIG/repo clean -fdq
  git -C $RIG/repo apply $s/patch.diff || { echo "$name: patch does not apply"; continue; }
  if ! (cd $RIG/mc && CARGO_NET_OFFLINE=true cargo build --offline --profile mc -p cobweb-mc >$RIG/build.log 2>&1); then
     echo "$name: BUILD FAILED"; tail -5 $RIG/build.log; continue
  fi
  caught=""
  CHECKS=$ALL
  if [ "$MODE" = meta ] && [ -f $s/meta.json ]; then
    CHECKS=$(python3 -c "import json,re,sys; m=json.load(open('$s/meta.json')); print(' '.join(sorted(set(re.findall(r'C[0-9][0-9]', ' '.join(m.get('caught_by',{}).keys()))))))")
  fi
  for c in $CHECKS; do
    out=$(cd /verif && VERIF_OUT_DIR=$RIG/out timeout 600 $RIG/mc/target/mc/cobweb-mc check $c --tier quick 2>&1); code=$?
    sig=$(echo "$out" | grep -m1 'signature=' | sed 's/.*signature=\([^ ]*\).*/\1/' | cut -c1-70)
    [ $code -ne 0 ] && echo "$name $c exit=$code $sig"
    [ $code -eq 1 ] && caught="$caught $c"
  done
  echo "== $name caught by:$caught (ran: $CHECKS)"
done
git -C /repo worktree remove --force $RIG/repo
rm -rf $RIG
git -C /repo worktree prune
