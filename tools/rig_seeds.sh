#!/bin/bash
# usage: rig_seeds.sh <listfile>    each line of the list: "<name under /verif/seeded> <check> <check> ..."
# Like regress_seeds.sh (isolated rig under /tmp/rigs: scratch worktree of /repo + copy of the harness pointing at it, so
# /repo and /verif/evidence are untouched and other runs can go on), but with an explicit list of checks per seed and the
# replay artefacts kept in /tmp/rigs-out/<name>/. Quick cap raised (VERIF_QUICK_CAP_S=300) because the machine may be busy.
set -u
RIG=${RIG:-/tmp/rigs}
LIST=$1
rm -rf $RIG; mkdir -p $RIG /tmp/rigs-out
git -C /repo worktree prune
git -C /repo worktree add --detach $RIG/repo HEAD >/dev/null 2>&1 || { echo "cannot create worktree"; exit 2; }
mkdir -p $RIG/mc
rsync -a --exclude target /verif/mc/ $RIG/mc/
cp -r /verif/mc/target $RIG/mc/target 2>/dev/null
sed -i "s#path = \"/repo\"#path = \"$RIG/repo\"#" $RIG/mc/harness/Cargo.toml
sed -i "s#/repo/src#$RIG/repo/src#g" $RIG/mc/loom-c10/build.rs
while read -r name checks; do
  [ -z "$name" ] && continue
  s=/verif/seeded/$name
  git -C $RIG/repo checkout -q -- . ; git -C $RIG/repo clean -fdq
  git -C $RIG/repo apply $s/patch.diff || { echo "$name: patch does not apply"; continue; }
  # pick up harness source changes made since the rig was created
  rsync -a --exclude target --exclude Cargo.toml --exclude build.rs /verif/mc/harness/src/ $RIG/mc/harness/src/
  if ! (cd $RIG/mc && CARGO_NET_OFFLINE=true cargo build --offline --profile mc -p cobweb-mc >$RIG/build.log 2>&1); then
     echo "$name: BUILD FAILED"; tail -5 $RIG/build.log; continue
  fi
  caught=""
  for c in $checks; do
    out=$(cd /verif && VERIF_QUICK_CAP_S=300 VERIF_OUT_DIR=/tmp/rigs-out/$name timeout 900 $RIG/mc/target/mc/cobweb-mc check $c --tier quick 2>&1); code=$?
    sig=$(echo "$out" | grep -m1 'signature=' | sed 's/.*signature=\([^ ]*\).*/\1/' | cut -c1-90)
    echo "$name $c exit=$code $sig $(echo "$out" | tail -1 | grep -o 'exhaustive=[a-z]*')"
    [ $code -eq 1 ] && caught="$caught $c"
  done
  echo "== $name caught by:$caught (ran: $checks)"
done < $LIST
git -C /repo worktree remove --force $RIG/repo
rm -rf $RIG
git -C /repo worktree prune
