//! A `crossbeam::channel` look-alike (unbounded MPMC FIFO) built on loom primitives, for the C10 loom leg only.
//! crossbeam-channel itself is not loom-aware; the channel is trusted to be a linearizable FIFO.

pub mod channel
{
    use loom::sync::{Arc, Mutex};
    use std::collections::VecDeque;

    pub struct Sender<T>(Arc<Mutex<VecDeque<T>>>);
    pub struct Receiver<T>(Arc<Mutex<VecDeque<T>>>);

    impl<T> Clone for Sender<T> { fn clone(&self) -> Self { Sender(self.0.clone()) } }
    impl<T> Clone for Receiver<T> { fn clone(&self) -> Self { Receiver(self.0.clone()) } }

    #[derive(Debug)]
    pub struct SendError<T>(pub T);
    #[derive(Debug)]
    pub enum TryRecvError { Empty, Disconnected }

    pub fn unbounded<T>() -> (Sender<T>, Receiver<T>)
    {
        let q = Arc::new(Mutex::new(VecDeque::new()));
        (Sender(q.clone()), Receiver(q))
    }

    impl<T> Sender<T>
    {
        pub fn send(&self, value: T) -> Result<(), SendError<T>>
        {
            self.0.lock().unwrap().push_back(value);
            Ok(())
        }
    }

    impl<T> Receiver<T>
    {
        pub fn try_recv(&self) -> Result<T, TryRecvError>
        {
            self.0.lock().unwrap().pop_front().ok_or(TryRecvError::Empty)
        }

        pub fn len(&self) -> usize { self.0.lock().unwrap().len() }
    }
}
