//! Copies the real `src/ecs/auto_despawn.rs` from /repo's working tree and rewrites its `std::sync` import to
//! `loom::sync` -- the mechanical substitution a `cfg(loom)` switch would make. Fails loudly if the import is not
//! found. If the copied file no longer compiles stand-alone, the leg reports itself as skipped (never a violation).
use std::path::PathBuf;

fn main()
{
    let src = PathBuf::from("/repo/src/ecs/auto_despawn.rs");
    println!("cargo:rerun-if-changed={}", src.display());
    let text = std::fs::read_to_string(&src).expect("cannot read /repo/src/ecs/auto_despawn.rs");
    let needle = "use std::sync::Arc;";
    if !text.contains(needle) { panic!("`{needle}` not found in auto_despawn.rs: the loom substitution does not apply"); }
    let out = text.replace(needle, "use loom::sync::Arc;");
    if out.contains("std::sync::") { panic!("auto_despawn.rs uses further std::sync items that are not redirected to loom"); }
    let dest = PathBuf::from(std::env::var("OUT_DIR").unwrap()).join("auto_despawn.rs");
    std::fs::write(dest, out).unwrap();
}
