//! C10, concurrent leg: every interleaving of clone drops on worker threads with garbage collection on the main
//! thread, on the real `AutoDespawnSignal` / `AutoDespawner` / `garbage_collect_entities` (copied from /repo by
//! build.rs, `std::sync::Arc` -> `loom::sync::Arc`).
#![allow(dead_code, unexpected_cfgs)]

mod auto_despawn { include!(concat!(env!("OUT_DIR"), "/auto_despawn.rs")); }

use auto_despawn::*;
use bevy::prelude::*;
use loom::sync::atomic::{AtomicUsize, Ordering};
use loom::sync::Arc;
use std::sync::atomic::AtomicU64;

static SCHEDULES: AtomicU64 = AtomicU64::new(0);
static OBSERVED_EARLY_GONE: AtomicU64 = AtomicU64::new(0);
static OBSERVED_LATE: AtomicU64 = AtomicU64::new(0);

#[derive(Clone, Copy, Debug)]
enum Worker { Drop1, CloneThenDropBoth, Drop2 }

fn scenario(workers: &'static [Worker], concurrent_gcs: usize, with_child: bool, bound: Option<usize>)
{
    let mut builder = loom::model::Builder::new();
    builder.preemption_bound = bound;
    builder.check(move || {
        SCHEDULES.fetch_add(1, std::sync::atomic::Ordering::Relaxed);
        let mut app = App::new();
        app.setup_auto_despawn();
        let entity = app.world_mut().spawn_empty().id();
        let child = if with_child
        {
            let c = app.world_mut().spawn_empty().id();
            app.world_mut().entity_mut(entity).add_child(c);
            Some(c)
        }
        else { None };
        let signal = app.world().resource::<AutoDespawner>().prepare(entity);

        // clones not yet announced as "about to be dropped": every holder decrements immediately BEFORE dropping,
        // so if the entity is observed despawned while this is > 0 a signal was sent by something other than the
        // last drop.
        let mut total = 0usize;
        for w in workers { total += match w { Worker::Drop1 | Worker::CloneThenDropBoth => 1, Worker::Drop2 => 2 }; }
        let outstanding = Arc::new(AtomicUsize::new(total));

        let mut handles = Vec::new();
        for w in workers.iter().copied()
        {
            let out = outstanding.clone();
            match w
            {
                Worker::Drop1 =>
                {
                    let c = signal.clone();
                    handles.push(loom::thread::spawn(move || {
                        out.fetch_sub(1, Ordering::SeqCst);
                        drop(c);
                    }));
                }
                Worker::CloneThenDropBoth =>
                {
                    let c = signal.clone();
                    handles.push(loom::thread::spawn(move || {
                        let c2 = c.clone();
                        drop(c);
                        out.fetch_sub(1, Ordering::SeqCst);
                        drop(c2);
                    }));
                }
                Worker::Drop2 =>
                {
                    let c = signal.clone();
                    let d = signal.clone();
                    handles.push(loom::thread::spawn(move || {
                        out.fetch_sub(1, Ordering::SeqCst);
                        drop(c);
                        out.fetch_sub(1, Ordering::SeqCst);
                        drop(d);
                    }));
                }
            }
        }
        // the original handle goes first: only worker clones remain
        drop(signal);

        for _ in 0..concurrent_gcs
        {
            garbage_collect_entities(app.world_mut());
            if app.world().get_entity(entity).is_err()
            {
                OBSERVED_EARLY_GONE.fetch_add(1, std::sync::atomic::Ordering::Relaxed);
                let left = outstanding.load(Ordering::SeqCst);
                assert_eq!(left, 0, "entity despawned by the framework while {left} clone(s) still exist");
            }
            else { OBSERVED_LATE.fetch_add(1, std::sync::atomic::Ordering::Relaxed); }
        }
        for h in handles { h.join().unwrap(); }

        // every clone has been dropped: the first collection now must despawn the entity and its descendants
        garbage_collect_entities(app.world_mut());
        assert!(app.world().get_entity(entity).is_err(), "entity not despawned by the first collection after the last clone dropped");
        if let Some(c) = child { assert!(app.world().get_entity(c).is_err(), "descendant survived the collection of its ancestor"); }
        assert!(app.world().resource::<AutoDespawner>().try_recv().is_none(), "stale despawn signal left in the channel");
        // idempotent
        let count = app.world().entities().len();
        garbage_collect_entities(app.world_mut());
        assert_eq!(count, app.world().entities().len(), "second collection changed the world");
    });
}

fn main()
{
    let thorough = std::env::args().any(|a| a == "--thorough");
    static S1: [Worker; 2] = [Worker::Drop1, Worker::Drop1];
    static S2: [Worker; 2] = [Worker::Drop1, Worker::CloneThenDropBoth];
    static S3: [Worker; 2] = [Worker::Drop2, Worker::Drop1];
    static S4: [Worker; 2] = [Worker::CloneThenDropBoth, Worker::CloneThenDropBoth];
    static S5: [Worker; 3] = [Worker::Drop1, Worker::Drop1, Worker::Drop1];
    // (workers, concurrent gcs, child, preemption bound (None = unbounded, complete DPOR), name)
    let mut scenarios: Vec<(&'static [Worker], usize, bool, Option<usize>, &str)> = vec![
        (&S1, 1, false, None, "2 workers drop 1 clone each, 1 concurrent gc"),
        (&S2, 1, true, None, "drop / clone-then-drop-both, 1 concurrent gc, entity has a child"),
        (&S3, 2, false, None, "drop 2 / drop 1, 2 concurrent gcs"),
    ];
    if thorough
    {
        scenarios.push((&S4, 2, true, Some(6), "clone-then-drop-both x2, 2 concurrent gcs, child"));
        scenarios.push((&S5, 1, false, Some(6), "3 workers drop 1 clone each, 1 concurrent gc"));
    }
    for (w, g, c, bound, name) in scenarios
    {
        let before = SCHEDULES.load(std::sync::atomic::Ordering::Relaxed);
        scenario(w, g, c, bound);
        let n = SCHEDULES.load(std::sync::atomic::Ordering::Relaxed) - before;
        println!("SCENARIO {name}: schedules={n} preemption_bound={}", bound.map(|b| b.to_string()).unwrap_or("none".into()));
    }
    println!("TOTAL schedules={} gone_during_concurrent_gc={} still_alive_during_concurrent_gc={}",
        SCHEDULES.load(std::sync::atomic::Ordering::Relaxed),
        OBSERVED_EARLY_GONE.load(std::sync::atomic::Ordering::Relaxed),
        OBSERVED_LATE.load(std::sync::atomic::Ordering::Relaxed));
}
