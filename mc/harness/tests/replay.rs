//! Replays violation artefacts as a plain unit test (no explorer): the test fails while the recorded program still
//! violates its property on /repo's working tree.
//!
//!   VERIF_REPLAY=/verif/replays/C12-....json cargo test --offline --profile mc -p cobweb-mc --test replay -- --nocapture
//!
//! Without VERIF_REPLAY every artefact under /verif/replays is replayed (none: the test passes).

fn replay_one(path: &str) -> i32
{
    let text = std::fs::read_to_string(path).expect("cannot read artefact");
    let v: serde_json::Value = serde_json::from_str(&text).expect("artefact is not JSON");
    let property = v["property"].as_str().expect("artefact without property").to_string();
    if text.contains("\"kind\"") { cobweb_mc::es_checks::replay_es(&property, path) }
    else { cobweb_mc::runner::replay(&property, path) }
}

#[test]
fn replay_artefacts()
{
    let paths: Vec<String> = match std::env::var("VERIF_REPLAY")
    {
        Ok(p) => vec![p],
        Err(_) => std::fs::read_dir("/verif/replays").map(|d| {
            let mut v: Vec<String> = d.filter_map(|e| e.ok()).map(|e| e.path().display().to_string()).filter(|p| p.ends_with(".json")).collect();
            v.sort();
            v
        }).unwrap_or_default(),
    };
    let mut failed = Vec::new();
    for p in paths.iter()
    {
        let code = replay_one(p);
        assert_ne!(code, 2, "machinery error while replaying {p}");
        if code == 1 { failed.push(p.clone()); }
    }
    assert!(failed.is_empty(), "violations reproduced: {:?}", failed);
}
