use cobweb_mc::checks::{plan, Tier};
use cobweb_mc::runner::{replay, run_plan};

fn usage() -> !
{
    eprintln!("usage: cobweb-mc check <ID> [--tier quick|thorough] [--replay FILE]");
    std::process::exit(2);
}

fn main()
{
    if std::env::var("VERIF_PANIC_VERBOSE").is_err() { std::panic::set_hook(Box::new(|_| {})); }
    let args: Vec<String> = std::env::args().collect();
    if args.len() >= 3 && args[1] == "exec"
    {
        // developer aid: run one program of a named configuration and print trace + verdicts
        let Some(cfg) = cobweb_mc::checks::config_by_name(&args[2]) else { eprintln!("unknown config"); std::process::exit(2); };
        let forced: Vec<u32> = args.get(3).map(|s| s.split(',').filter(|x| !x.is_empty()).map(|x| x.parse().unwrap()).collect()).unwrap_or_default();
        let ex = cobweb_mc::universe::execute(&cfg, forced);
        for (i, e) in ex.trace.iter().enumerate() { println!("{i}: {:?}", e); }
        let out = cobweb_mc::monitor::run_monitor(&cfg, &ex.trace);
        for v in out.violations.iter() { println!("{} {} {} :: {}", v.property, v.rule, v.signature, v.detail); }
        println!("record={:?}", ex.record);
        return;
    }
    if args.len() < 3 || args[1] != "check" { usage(); }
    let id = args[2].clone();
    let mut tier = match std::env::var("VERIF_TIER").as_deref() { Ok("thorough") => Tier::Thorough, _ => Tier::Quick };
    let mut replay_path: Option<String> = None;
    let mut i = 3;
    while i < args.len()
    {
        match args[i].as_str()
        {
            "--tier" => { i += 1; tier = match args.get(i).map(|s| s.as_str()) { Some("quick") => Tier::Quick, Some("thorough") => Tier::Thorough, _ => usage() }; }
            "--replay" => { i += 1; replay_path = args.get(i).cloned(); if replay_path.is_none() { usage(); } }
            _ => usage(),
        }
        i += 1;
    }
    if let Some(p) = replay_path
    {
        // explicit-state artefacts carry a "kind"; lazy-program artefacts carry a "config"
        let is_es = std::fs::read_to_string(&p).map(|t| t.contains("\"kind\"")).unwrap_or(false);
        if is_es { std::process::exit(cobweb_mc::es_checks::replay_es(&id, &p)); }
        std::process::exit(replay(&id, &p));
    }
    if id == "C10" { std::process::exit(cobweb_mc::es_checks::run_c10(tier)); }
    if id == "C16" { std::process::exit(cobweb_mc::es_more::run_c16(tier)); }
    if id == "C17" { std::process::exit(cobweb_mc::es_more::run_c17(tier)); }
    let Some(plan) = plan(&id, tier) else { eprintln!("no plan for {id}"); std::process::exit(2); };
    let out = run_plan(plan, tier);
    std::process::exit(out.exit);
}
