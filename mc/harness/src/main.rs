use cobweb_mc::ctx::*;
use cobweb_mc::model::*;
use cobweb_mc::universe::*;
use std::sync::Arc;

fn main()
{
    std::panic::set_hook(Box::new(|_| {}));
    let mut cfg = Config::base("probe");
    cfg.setup = vec![Op::Register(1, Bundle::one(Trig::Broadcast(Ev::A)), Mode::Persistent)];
    cfg.fixed_top = vec![Op::Run(0)];
    cfg.script = Arc::new(|i: &DynInfo| {
        let mut v = vec![];
        for a in 0..i.n_actors { v.push(Op::Run(a as u8)); v.push(Op::SysEvent(a as u8)); }
        v.push(Op::Broadcast(Ev::A));
        v
    });
    cfg.budget = 3;
    let cfg = Arc::new(cfg);
    let forced: Vec<u32> = std::env::args().skip(1).map(|s| s.parse().unwrap()).collect();
    let ex = execute(&cfg, forced);
    for ev in ex.trace.iter() { println!("{:?}", ev); }
    println!("record={:?} err={:?} {:?}", ex.record, ex.chooser_error, ex.machinery_error);
}
