//! Explicit-state breadth-first search over histories of top-level operations.
//!
//! A state is the history that reaches it (a `World` cannot be cloned, so a successor is built by re-executing
//! `history + [op]` on a fresh App). States are deduplicated by a canonical key made of the reference model's state
//! and the implementation's own observable bookkeeping.

use std::collections::{HashSet, VecDeque};
use std::hash::Hash;
use std::sync::atomic::{AtomicBool, AtomicU64, Ordering};
use std::sync::Mutex;
use std::time::Instant;

pub struct EsViolation<O>
{
    pub history: Vec<O>,
    pub signature: String,
    pub detail: String,
}

/// What executing one history returns.
pub struct StepResult<K>
{
    /// Canonical key of the state reached (model state + implementation observation).
    pub key: K,
    /// Disagreements between the reference model and the implementation on the last step.
    pub violations: Vec<(String, String)>,
    /// The search does not expand this state further (e.g. a violation desynchronised model and code).
    pub stop: bool,
}

pub struct EsStats<O>
{
    pub states: usize,
    pub transitions: u64,
    pub max_depth: usize,
    pub violations: Vec<EsViolation<O>>,
    pub violation_count: u64,
    pub fixpoint: bool,
    pub capped: bool,
    pub samples: Vec<Vec<O>>,
    pub states_per_depth: Vec<usize>,
}

/// Breadth-first search to depth `max_depth` (or to a fixed point if the reachable key set is exhausted earlier).
///
/// `enabled(history)` lists the operations to try after `history`; `run(history)` executes the whole history on the
/// real code in lock-step with the reference model and reports the key reached and any disagreement on the last step.
pub fn bfs<O, K>(
    max_depth: usize,
    deadline: Option<Instant>,
    threads: usize,
    enabled: &(dyn Fn(&[O]) -> Vec<O> + Sync),
    run: &(dyn Fn(&[O]) -> StepResult<K> + Sync),
) -> EsStats<O>
where
    O: Clone + Send + Sync + std::fmt::Debug,
    K: Eq + Hash + Send + Clone,
{
    let seen: Mutex<HashSet<K>> = Mutex::new(HashSet::new());
    let violations: Mutex<Vec<EsViolation<O>>> = Mutex::new(Vec::new());
    let vcount = AtomicU64::new(0);
    let transitions = AtomicU64::new(0);
    let capped = AtomicBool::new(false);
    let mut stats_depth = Vec::new();
    let mut samples: Vec<Vec<O>> = Vec::new();

    // initial state
    let init = run(&[]);
    seen.lock().unwrap().insert(init.key);
    let mut frontier: Vec<Vec<O>> = vec![Vec::new()];
    let mut depth = 0;
    let mut fixpoint = false;
    stats_depth.push(1);

    while depth < max_depth
    {
        if frontier.is_empty() { fixpoint = true; break; }
        let next: Mutex<Vec<Vec<O>>> = Mutex::new(Vec::new());
        let work: Mutex<VecDeque<Vec<O>>> = Mutex::new(frontier.drain(..).collect());
        std::thread::scope(|scope| {
            for _ in 0..threads.max(1)
            {
                scope.spawn(|| {
                    loop
                    {
                        if capped.load(Ordering::Relaxed) { break; }
                        let Some(hist) = work.lock().unwrap().pop_front() else { break };
                        for op in enabled(&hist)
                        {
                            if let Some(d) = deadline { if Instant::now() > d { capped.store(true, Ordering::SeqCst); break; } }
                            let mut h = hist.clone();
                            h.push(op);
                            let r = run(&h);
                            transitions.fetch_add(1, Ordering::Relaxed);
                            for (sig, detail) in r.violations
                            {
                                vcount.fetch_add(1, Ordering::Relaxed);
                                let mut v = violations.lock().unwrap();
                                match v.iter_mut().find(|x| x.signature == sig)
                                {
                                    Some(x) => { if h.len() < x.history.len() { x.history = h.clone(); x.detail = detail; } }
                                    None => { if v.len() < 32 { v.push(EsViolation{ history: h.clone(), signature: sig, detail }); } }
                                }
                            }
                            if r.stop { continue; }
                            let fresh = seen.lock().unwrap().insert(r.key);
                            if fresh { next.lock().unwrap().push(h); }
                        }
                    }
                });
            }
        });
        if capped.load(Ordering::SeqCst) { break; }
        frontier = next.into_inner().unwrap();
        // deterministic order regardless of thread interleaving
        frontier.sort_by_key(|h| format!("{:?}", h));
        depth += 1;
        stats_depth.push(frontier.len());
        for h in frontier.iter().take(2) { if samples.len() < 6 { samples.push(h.clone()); } }
    }
    if frontier.is_empty() && !capped.load(Ordering::SeqCst) { fixpoint = true; }

    let states = seen.lock().unwrap().len();
    EsStats{
        states,
        transitions: transitions.load(Ordering::SeqCst),
        max_depth: depth,
        violations: violations.into_inner().unwrap(),
        violation_count: vcount.load(Ordering::SeqCst),
        fixpoint,
        capped: capped.load(Ordering::SeqCst),
        samples,
        states_per_depth: stats_depth,
    }
}
