//! Per-property exploration plans: universes, alphabets and bounds per tier.

use crate::ctx::*;
use crate::model::*;
use std::sync::Arc;

#[derive(Clone, Copy, Debug, PartialEq, Eq)]
pub enum Tier { Quick, Thorough }

/// One exploration of a plan.
pub struct PlanItem
{
    pub cfg: Arc<Config>,
    /// Bound label (e.g. "N=5").
    pub bound: String,
    /// Items of one `series` are explored in order of increasing bound; under a wall-clock cap the coverage claim is
    /// the last completed item of each series.
    pub series: String,
}

pub struct Plan
{
    pub property: &'static str,
    pub items: Vec<PlanItem>,
    /// Violation properties this check reports (its own id; "*" is always included).
    pub reports: Vec<&'static str>,
    pub rule: String,
    pub assumptions: Vec<String>,
}

//-------------------------------------------------------------------------------------------------------------------
// alphabet helpers

fn all_actors(i: &DynInfo) -> impl Iterator<Item = ActorId> { 0..i.n_actors as ActorId }
fn all_ents(i: &DynInfo) -> impl Iterator<Item = EntId> { 0..i.n_ents as EntId }

/// Runner-core alphabet: Run / SysEvent / DespawnSys over all actors + broadcast EvA.
fn core_alphabet(despawn: bool, broadcast: bool) -> AlphabetFn
{
    Arc::new(move |i: &DynInfo| {
        let mut v = Vec::new();
        for a in all_actors(i)
        {
            v.push(Op::Run(a));
            v.push(Op::SysEvent(a));
            if despawn { v.push(Op::DespawnSys(a)); }
        }
        if broadcast { v.push(Op::Broadcast(Ev::A)); }
        v
    })
}

fn listeners_setup(listeners: &[ActorId], trig: Trig) -> Vec<Op>
{
    listeners.iter().map(|a| Op::Register(*a, Bundle::one(trig), Mode::Persistent)).collect()
}

fn core_cfg(name: String, variants: Vec<Variant>, listeners: &[ActorId], n: u32, tops: u32, despawn: bool) -> Config
{
    let mut cfg = Config::base(&name);
    let n_actors = variants.len();
    cfg.actors = variants.clone();
    cfg.n_ents = 1;
    cfg.setup = listeners_setup(listeners, Trig::Broadcast(Ev::A));
    cfg.fixed_top = vec![Op::Run(0)];
    cfg.script = core_alphabet(despawn, !listeners.is_empty());
    cfg.top = core_alphabet(false, !listeners.is_empty());
    cfg.max_top = tops;
    cfg.budget = n;
    cfg.max_per_run = 3;
    cfg.max_runs = 200;
    // actors other than 0 with the same variant and listener status are interchangeable
    let mut classes: Vec<Vec<ActorId>> = Vec::new();
    for a in 1..n_actors as ActorId
    {
        let key = (variants[a as usize], listeners.contains(&a));
        match classes.iter_mut().find(|c| (variants[c[0] as usize], listeners.contains(&c[0])) == key)
        {
            Some(c) => c.push(a),
            None => classes.push(vec![a]),
        }
    }
    cfg.sym_actors = classes.into_iter().filter(|c| c.len() > 1).collect();
    cfg
}

/// Everything-registered preset: each listed actor listens to every trigger kind, type-wide and entity-scoped.
fn rich_setup(actors: &[ActorId], ents: &[EntId], entity_scoped: bool, polled: bool) -> Vec<Op>
{
    let mut v = Vec::new();
    for &a in actors
    {
        v.push(Op::Register(a, Bundle::three(Trig::Broadcast(Ev::A), Trig::AnyEntityEvent(Ev::A), Trig::ResMut), Mode::Persistent));
        v.push(Op::Register(a, Bundle::two(Trig::Insertion(Comp::A), Trig::Mutation(Comp::A)), Mode::Persistent));
        if polled { v.push(Op::Register(a, Bundle::one(Trig::Removal(Comp::A)), Mode::Persistent)); }
        if entity_scoped
        {
            for &e in ents
            {
                v.push(Op::Register(a, Bundle::three(Trig::EntityEvent(Ev::A, e), Trig::EntityInsertion(Comp::A, e), Trig::EntityMutation(Comp::A, e)), Mode::Persistent));
            }
        }
    }
    v
}

/// Kind-rich alphabet.
fn rich_alphabet(runs: bool, despawn_ents: bool, remove: bool, probe: Option<ActorId>) -> AlphabetFn
{
    Arc::new(move |i: &DynInfo| {
        let mut v = Vec::new();
        if runs
        {
            for a in all_actors(i)
            {
                if Some(a) == probe { continue; }
                v.push(Op::Run(a));
                v.push(Op::SysEvent(a));
            }
        }
        if let Some(p) = probe { v.push(Op::Run(p)); }
        v.push(Op::Broadcast(Ev::A));
        v.push(Op::ResMutate(How::GetMut));
        for e in all_ents(i)
        {
            v.push(Op::EntityEvent(Ev::A, e));
            v.push(Op::Insert(Comp::A, e, 0));
            v.push(Op::Mutate(Comp::A, e, How::GetMut));
            if remove { v.push(Op::RemoveComp(Comp::A, e)); }
            if despawn_ents { v.push(Op::Despawn(e)); }
        }
        v
    })
}

//-------------------------------------------------------------------------------------------------------------------

fn item(cfg: Config, series: &str, bound: &str) -> PlanItem
{
    PlanItem{ cfg: Arc::new(cfg), bound: bound.to_string(), series: series.to_string() }
}

pub fn plan(property: &str, tier: Tier) -> Option<Plan>
{
    let q = tier == Tier::Quick;
    let p3 = vec![Variant::Plain, Variant::Plain, Variant::Plain];
    let mut items: Vec<PlanItem> = Vec::new();
    let (reports, rule, assumptions): (Vec<&'static str>, String, Vec<String>);
    let base_assumptions = vec![
        "bounded: every program with at most N chosen operations over the stated universe is executed on the real \
         crate; deeper trees are not covered".to_string(),
        "single-threaded Bevy executor; hooks (feature verif) only observe".to_string(),
    ];
    match property
    {
        "C02" =>
        {
            let ns: &[u32] = if q { &[3, 4] } else { &[4, 5, 6] };
            for &n in ns
            {
                items.push(item(core_cfg(format!("C02/plain3/L1/N{n}"), p3.clone(), &[1], n, 1, true), "plain3-L1", &format!("N={n}")));
            }
            let ns: &[u32] = if q { &[4] } else { &[4, 5] };
            for &n in ns
            {
                items.push(item(core_cfg(format!("C02/plain3/L012/N{n}"), p3.clone(), &[0, 1, 2], n, 1, true), "plain3-L012", &format!("N={n}")));
                items.push(item(core_cfg(format!("C02/err-excl/L01/N{n}"), vec![Variant::Erring, Variant::Exclusive, Variant::Plain], &[0, 1], n, 1, true), "err-excl-L01", &format!("N={n}")));
            }
            if !q
            {
                items.push(item(core_cfg("C02/plain3/L0/N5".into(), p3.clone(), &[], 5, 2, true), "plain3-L0-2trees", "N=5"));
            }
            reports = vec!["C02"];
            rule = "lazily enumerated programs over {Run, SysEvent, DespawnSys}x3 actors + Broadcast with preset \
                listeners; non-trivial = at least one system run; distinct = distinct canonical trace".into();
            assumptions = base_assumptions;
        }
        "C09" =>
        {
            let ns: &[u32] = if q { &[4] } else { &[4, 5, 6] };
            for &n in ns
            {
                let mut c = core_cfg(format!("C09/plain3/L1/N{n}"), p3.clone(), &[1], n, 0, false);
                let inner = c.script.clone();
                c.script = Arc::new(move |i: &DynInfo| { let mut v = inner(i); v.push(Op::Nop); v });
                items.push(item(c, "core+nop", &format!("N={n}")));
            }
            let ns: &[u32] = if q { &[3] } else { &[3, 4] };
            for &n in ns
            {
                let mut c = Config::base(&format!("C09/rich2/N{n}"));
                c.actors = vec![Variant::Plain, Variant::Plain];
                c.n_ents = 1;
                c.setup = { let mut s = vec![Op::Insert(Comp::A, 0, 0)]; s.extend(rich_setup(&[0, 1], &[0], false, true)); s };
                c.fixed_top = vec![Op::Run(0)];
                c.script = rich_alphabet(true, false, true, None);
                c.budget = n;
                c.max_runs = 400;
                items.push(item(c, "rich2", &format!("N={n}")));
            }
            reports = vec!["C09"];
            rule = "runner-core programs plus plain commands, and kind-rich programs (insertion / mutation / removal \
                reactions, events); non-trivial = at least one run; distinct = distinct canonical trace".into();
            assumptions = {
                let mut a = base_assumptions;
                a.push("weak reading of 'runs immediately': a postponed command must run after the busy execution ends \
                    and before the next command queued after that execution's in-line ancestor; order among postponed \
                    commands of different senders is recorded, not judged".into());
                a
            };
        }
        "C12" =>
        {
            let ns: &[u32] = if q { &[4] } else { &[4, 5, 6] };
            for &n in ns
            {
                let mut c = Config::base(&format!("C12/deliver2/N{n}"));
                c.actors = vec![Variant::Plain, Variant::Plain];
                c.n_ents = 1;
                c.setup = { let mut s = vec![Op::Insert(Comp::A, 0, 0)]; s.extend(rich_setup(&[0, 1], &[0], false, false)); s };
                c.fixed_top = vec![Op::Run(0)];
                c.script = Arc::new(|i: &DynInfo| {
                    // only the first two runs send (one sender delivering a sequence, possibly relayed once)
                    if i.runs_so_far > 2 { return Vec::new(); }
                    let mut v = Vec::new();
                    for a in 0..i.n_actors as ActorId { v.push(Op::Run(a)); v.push(Op::SysEvent(a)); }
                    v.push(Op::Broadcast(Ev::A));
                    v.push(Op::EntityEvent(Ev::A, 0));
                    v.push(Op::Mutate(Comp::A, 0, How::GetMut));
                    v.push(Op::Insert(Comp::A, 0, 0));
                    v
                });
                c.budget = n;
                c.max_per_run = n;
                c.max_runs = 400;
                items.push(item(c, "deliver2", &format!("N={n}")));
            }
            let ns: &[u32] = if q { &[4] } else { &[5, 6] };
            for &n in ns
            {
                items.push(item(core_cfg(format!("C12/plain3/L1/N{n}"), p3.clone(), &[1], n, 0, true), "core3", &format!("N={n}")));
            }
            reports = vec!["C12"];
            rule = "one or two sender runs delivering up to N items of every mix of kinds {Run, SysEvent, Broadcast, \
                EntityEvent, Mutation, Insertion} to two targets (busy self / parent, idle other), plus runner-core \
                programs; non-trivial = at least one run; distinct = distinct canonical trace".into();
            assumptions = base_assumptions;
        }
        "C13" =>
        {
            let ns: &[u32] = if q { &[4] } else { &[5, 6] };
            for &n in ns
            {
                items.push(item(core_cfg(format!("C13/plain3/L12/N{n}"), p3.clone(), &[1, 2], n, 1, false), "core3", &format!("N={n}")));
                items.push(item(core_cfg(format!("C13/mixed3/L1/N{n}"), vec![Variant::Plain, Variant::Exclusive, Variant::Erring], &[1], n, 1, true), "mixed3", &format!("N={n}")));
            }
            reports = vec!["C13"];
            rule = "runner-core programs over three registrations of the same closure type (and exclusive / erring \
                variants): at every run the Local counter and the captured counter equal the number of earlier runs of \
                that registration".into();
            assumptions = base_assumptions;
        }
        "C11" =>
        {
            let ns: &[u32] = if q { &[4] } else { &[5, 6] };
            for &n in ns
            {
                items.push(item(core_cfg(format!("C11/plain3/L1/N{n}"), p3.clone(), &[1], n, 2, true), "core3-trees", &format!("N={n}")));
            }
            let ns: &[u32] = if q { &[3] } else { &[3, 4] };
            for &n in ns
            {
                let mut c = Config::base(&format!("C11/rich2/N{n}"));
                c.actors = vec![Variant::Plain, Variant::Plain];
                c.n_ents = 2;
                c.setup = { let mut s = vec![Op::Insert(Comp::A, 0, 0)]; s.extend(rich_setup(&[0, 1], &[0, 1], true, true)); s };
                c.fixed_top = vec![Op::Run(0)];
                c.script = rich_alphabet(true, true, true, None);
                c.top = rich_alphabet(true, false, false, None);
                c.max_top = 1;
                c.budget = n;
                c.max_runs = 400;
                c.sym_ents = vec![];
                items.push(item(c, "rich2", &format!("N={n}")));
            }
            reports = vec!["C11"];
            rule = "every quiescent point of runner-core and kind-rich programs (aborted, postponed, discarded and \
                self-despawning commands; several trees per world): framework bookkeeping snapshot must be clean".into();
            assumptions = base_assumptions;
        }
        "C03" | "C04" =>
        {
            let is3 = property == "C03";
            let ns: &[u32] = if q { &[3] } else { &[3, 4, 5] };
            for &n in ns
            {
                let mut c = Config::base(&format!("{property}/rich/N{n}"));
                c.actors = if is3 { vec![Variant::Plain, Variant::Plain] } else { vec![Variant::Plain, Variant::Exclusive, Variant::Plain] };
                c.n_ents = 2;
                c.setup = { let mut s = vec![Op::Insert(Comp::A, 0, 0), Op::Insert(Comp::A, 1, 0)]; s.extend(rich_setup(&[0, 1], &[0, 1], true, true)); s };
                c.fixed_top = vec![Op::Run(0)];
                c.script = rich_alphabet(true, is3, true, if is3 { None } else { Some(2) });
                c.budget = n;
                c.max_runs = 600;
                items.push(item(c, "rich", &format!("N={n}")));
            }
            if !is3
            {
                let ns: &[u32] = if q { &[3] } else { &[3, 4] };
                for &n in ns
                {
                    let mut c = Config::base(&format!("C04/erring/N{n}"));
                    c.actors = vec![Variant::Erring, Variant::Plain, Variant::Plain];
                    c.n_ents = 1;
                    c.setup = { let mut s = vec![Op::Insert(Comp::A, 0, 0)]; s.extend(rich_setup(&[0, 1], &[0], true, false)); s };
                    c.fixed_top = vec![Op::SysEvent(0)];
                    c.script = rich_alphabet(true, false, false, Some(2));
                    c.budget = n;
                    c.max_runs = 600;
                    items.push(item(c, "erring", &format!("N={n}")));
                }
            }
            reports = vec![if is3 { "C03" } else { "C04" }];
            rule = "kind-rich programs: two actors registered for every trigger kind type-wide and entity-scoped (several \
                metadata entries per system pending at once); readers of every kind sampled at the start of every \
                run; C04 adds a probe actor with no registration run at every script position, exclusive and erring \
                reactors".into();
            assumptions = base_assumptions;
        }
        "C05" =>
        {
            let ns: &[u32] = if q { &[3] } else { &[3, 4, 5] };
            for &n in ns
            {
                let mut c = Config::base(&format!("C05/faults/N{n}"));
                c.actors = vec![Variant::Plain, Variant::Plain, Variant::NoTake];
                c.n_ents = 1;
                c.setup = vec![
                    Op::Register(0, Bundle::two(Trig::Broadcast(Ev::A), Trig::EntityEvent(Ev::A, 0)), Mode::Persistent),
                    Op::Register(1, Bundle::two(Trig::Broadcast(Ev::A), Trig::AnyEntityEvent(Ev::A)), Mode::Persistent),
                    Op::Register(2, Bundle::one(Trig::EntityEvent(Ev::A, 0)), Mode::Persistent),
                ];
                c.fixed_top = vec![];
                let alpha: AlphabetFn = Arc::new(|i: &DynInfo| {
                    let mut v = Vec::new();
                    v.push(Op::Broadcast(Ev::A));
                    v.push(Op::Broadcast(Ev::B));
                    v.push(Op::EntityEvent(Ev::A, 0));
                    for a in 0..i.n_actors as ActorId { v.push(Op::SysEvent(a)); v.push(Op::DespawnSys(a)); }
                    v.push(Op::Despawn(0));
                    v
                });
                c.script = alpha.clone();
                c.top = alpha;
                c.max_top = 2;
                c.budget = n;
                c.max_runs = 400;
                items.push(item(c, "faults", &format!("N={n}")));
            }
            reports = vec!["C05"];
            rule = "events with 0..3 listeners (entity-scoped + type-wide, taking and non-taking system-event readers) \
                and fault ops (despawn listener system, despawn target entity) placed by earlier listeners between \
                scheduling and running, listeners postponed by recursion, events to dead systems/entities".into();
            assumptions = base_assumptions;
        }
        _ => return None,
    }
    Some(Plan{ property: leak(property), items, reports, rule, assumptions })
}

fn leak(s: &str) -> &'static str { Box::leak(s.to_string().into_boxed_str()) }

pub const ALL: &[&str] = &[
    "C01", "C02", "C03", "C04", "C05", "C06", "C07", "C08", "C09", "C10", "C11", "C12", "C13", "C14", "C15", "C16",
    "C17", "C18",
];

/// Finds a configuration by its unique name (for replay).
pub fn config_by_name(name: &str) -> Option<Arc<Config>>
{
    for p in ALL
    {
        for t in [Tier::Quick, Tier::Thorough]
        {
            if let Some(plan) = plan(p, t)
            {
                for it in plan.items { if it.cfg.name == name { return Some(it.cfg); } }
            }
        }
    }
    None
}
