//! Per-property exploration plans: universes, alphabets and bounds per tier.

use crate::ctx::*;
use crate::model::*;
use std::sync::Arc;

#[derive(Clone, Copy, Debug, PartialEq, Eq)]
pub enum Tier { Quick, Thorough }

/// One exploration of a plan.
pub struct PlanItem
{
    pub cfg: Arc<Config>,
    /// Bound label (e.g. "N=5").
    pub bound: String,
    /// Items of one `series` are explored in order of increasing bound; under a wall-clock cap the coverage claim is
    /// the last completed item of each series.
    pub series: String,
}

pub struct Plan
{
    pub property: &'static str,
    pub items: Vec<PlanItem>,
    /// Violation properties this check reports (its own id; "*" is always included).
    pub reports: Vec<&'static str>,
    pub rule: String,
    pub assumptions: Vec<String>,
}

//-------------------------------------------------------------------------------------------------------------------
// alphabet helpers

fn all_actors(i: &DynInfo) -> impl Iterator<Item = ActorId> { i.ready_actors().into_iter() }
fn all_ents(i: &DynInfo) -> impl Iterator<Item = EntId> { 0..i.n_ents as EntId }

/// Runner-core alphabet: Run / SysEvent / DespawnSys over all actors + broadcast EvA.
fn core_alphabet(despawn: bool, broadcast: bool) -> AlphabetFn
{
    Arc::new(move |i: &DynInfo| {
        let mut v = Vec::new();
        for a in all_actors(i)
        {
            v.push(Op::Run(a));
            v.push(Op::SysEvent(a));
            if despawn { v.push(Op::DespawnSys(a)); }
        }
        if broadcast { v.push(Op::Broadcast(Ev::A)); }
        v
    })
}

fn listeners_setup(listeners: &[ActorId], trig: Trig) -> Vec<Op>
{
    listeners.iter().map(|a| Op::Register(*a, Bundle::one(trig), Mode::Persistent)).collect()
}

fn core_cfg(name: String, variants: Vec<Variant>, listeners: &[ActorId], n: u32, tops: u32, despawn: bool) -> Config
{
    let mut cfg = Config::base(&name);
    let n_actors = variants.len();
    cfg.actors = variants.clone();
    cfg.n_ents = 1;
    cfg.setup = listeners_setup(listeners, Trig::Broadcast(Ev::A));
    cfg.fixed_top = vec![Op::Run(0)];
    cfg.script = core_alphabet(despawn, !listeners.is_empty());
    cfg.top = core_alphabet(false, !listeners.is_empty());
    cfg.max_top = tops;
    cfg.budget = n;
    cfg.max_per_run = 3;
    cfg.max_runs = 200;
    // actors other than 0 with the same variant and listener status are interchangeable
    let mut classes: Vec<Vec<ActorId>> = Vec::new();
    for a in 1..n_actors as ActorId
    {
        let key = (variants[a as usize], listeners.contains(&a));
        match classes.iter_mut().find(|c| (variants[c[0] as usize], listeners.contains(&c[0])) == key)
        {
            Some(c) => c.push(a),
            None => classes.push(vec![a]),
        }
    }
    cfg.sym_actors = classes.into_iter().filter(|c| c.len() > 1).collect();
    cfg
}

/// Everything-registered preset: each listed actor listens to every trigger kind, type-wide and entity-scoped.
fn rich_setup(actors: &[ActorId], ents: &[EntId], entity_scoped: bool, polled: bool) -> Vec<Op>
{
    let mut v = Vec::new();
    for &a in actors
    {
        v.push(Op::Register(a, Bundle::three(Trig::Broadcast(Ev::A), Trig::AnyEntityEvent(Ev::A), Trig::ResMut), Mode::Persistent));
        v.push(Op::Register(a, Bundle::two(Trig::Insertion(Comp::A), Trig::Mutation(Comp::A)), Mode::Persistent));
        if polled { v.push(Op::Register(a, Bundle::one(Trig::Removal(Comp::A)), Mode::Persistent)); }
        if entity_scoped
        {
            for &e in ents
            {
                v.push(Op::Register(a, Bundle::three(Trig::EntityEvent(Ev::A, e), Trig::EntityInsertion(Comp::A, e), Trig::EntityMutation(Comp::A, e)), Mode::Persistent));
            }
        }
    }
    v
}

/// Kind-rich alphabet.
fn rich_alphabet(runs: bool, despawn_ents: bool, remove: bool, probe: Option<ActorId>) -> AlphabetFn
{
    Arc::new(move |i: &DynInfo| {
        let mut v = Vec::new();
        if runs
        {
            for a in all_actors(i)
            {
                if Some(a) == probe { continue; }
                v.push(Op::Run(a));
                v.push(Op::SysEvent(a));
            }
        }
        if let Some(p) = probe { v.push(Op::Run(p)); }
        v.push(Op::Broadcast(Ev::A));
        v.push(Op::ResMutate(How::GetMut));
        for e in all_ents(i)
        {
            v.push(Op::EntityEvent(Ev::A, e));
            v.push(Op::Insert(Comp::A, e, 0));
            v.push(Op::Mutate(Comp::A, e, How::GetMut));
            if remove { v.push(Op::RemoveComp(Comp::A, e)); }
            if despawn_ents { v.push(Op::Despawn(e)); }
        }
        v
    })
}

/// Trigger entity 0 is auto-despawned (the harness holds its only signal) and carries entity-scoped triggers of
/// ref-counted reactors; one of them also watches the other reactor's trigger entity.
fn chain_cfg(name: String, n: u32, watchers: bool) -> Config
{
    let mut c = Config::base(&name);
    c.actors = vec![Variant::Plain];
    c.n_ents = 2;
    c.children = vec![(1, 0)];
    c.auto_ents = vec![0];
    c.setup = vec![
        Op::RegisterNew(Variant::Plain, Bundle::one(Trig::EntityEvent(Ev::A, 0)), Mode::Cleanup),
        Op::RegisterNew(Variant::Plain, Bundle::two(Trig::EntityEvent(Ev::A, 1), Trig::Broadcast(Ev::B)), Mode::Revokable),
    ];
    if watchers { c.setup.push(Op::Register(0, Bundle::two(Trig::Despawn(0), Trig::Despawn(1)), Mode::Persistent)); }
    let alpha: AlphabetFn = Arc::new(|i: &DynInfo| {
        let mut v = vec![Op::DropSignal(0), Op::EntityEvent(Ev::A, 0), Op::EntityEvent(Ev::A, 1), Op::Broadcast(Ev::B), Op::Run(0), Op::Gc];
        for k in i.ready_tokens() { v.push(Op::Revoke(k)); }
        v
    });
    c.top = alpha.clone();
    c.script = alpha;
    c.max_top = 3;
    c.budget = n;
    c.max_per_run = 2;
    c.max_runs = 200;
    c.final_gc = true;
    c
}

//-------------------------------------------------------------------------------------------------------------------

/// Histories of reactors that come and go: register new reactors (every mode, or one-off reactors) with bundles that
/// include empty, despawn and duplicate triggers, revoke, fire, despawn trigger entities, collect garbage, poll.
fn life_cfg(name: String, is7: bool, d: u32) -> Config
{
                let mut c = Config::base(&name);
                c.actors = vec![Variant::Plain];
                c.n_ents = 2;
                let bundles = vec![
                    Bundle::EMPTY,
                    Bundle::one(Trig::Broadcast(Ev::A)),
                    Bundle::one(Trig::EntityEvent(Ev::A, 0)),
                    Bundle::one(Trig::Despawn(0)),
                    Bundle::two(Trig::Despawn(0), Trig::Despawn(1)),
                    Bundle::two(Trig::EntityEvent(Ev::A, 0), Trig::Despawn(1)),
                    Bundle::two(Trig::Broadcast(Ev::A), Trig::ResMut),
                    // the same trigger twice in one bundle: two registrations, one token names both
                    Bundle::three(Trig::Broadcast(Ev::A), Trig::ResMut, Trig::Broadcast(Ev::A)),
                ];
                c.top = Arc::new(move |i: &DynInfo| {
                    let mut v = Vec::new();
                    if i.n_actors < 3
                    {
                        for b in bundles.iter()
                        {
                            if is7
                            {
                                for m in [Mode::Persistent, Mode::Cleanup, Mode::Revokable] { v.push(Op::RegisterNew(Variant::Plain, *b, m)); }
                            }
                            else { v.push(Op::Once(Variant::Plain, *b)); }
                        }
                    }
                    for k in i.ready_tokens() { v.push(Op::Revoke(k)); }
                    // a reactor despawned by hand: its handles become stale entries of the auto-despawn channel
                    if is7 { for a in i.ready_actors() { if a != 0 { v.push(Op::DespawnSys(a)); } } }
                    v.push(Op::Broadcast(Ev::A));
                    v.push(Op::EntityEvent(Ev::A, 0));
                    v.push(Op::ResMutate(How::GetMut));
                    v.push(Op::Despawn(0));
                    v.push(Op::Despawn(1));
                    // every component of a watched entity removed while it stays alive (its despawn tracker goes too)
                    if is7 { v.push(Op::Clear(1)); }
                    v.push(Op::Gc);
                    v.push(Op::Poll);
                    v.push(Op::Run(0));
                    v
                });
                // new reactors (and actor 0) fire triggers from inside their runs (self-triggering, nested, several
                // triggers in one tree)
                c.script = Arc::new(move |i: &DynInfo| {
                    let mut v = vec![Op::Broadcast(Ev::A), Op::EntityEvent(Ev::A, 0), Op::Despawn(0), Op::ResMutate(How::GetMut)];
                    // a (despawn) reactor that despawns the other watched entity and then runs another system: the
                    // second despawn is detected while the reactor is still executing
                    if is7 { v.push(Op::Despawn(1)); v.push(Op::Run(0)); }
                    // a one-off reactor that despawns its own entity from its body (its wrapper finds it gone)
                    if !is7 { if let Where::Script(r, _) = i.at { if r.actor != 0 { v.push(Op::DespawnSys(r.actor)); } } }
                    v
                });
                c.max_top = d;
                c.budget = d + 1;
                c.max_per_run = 2;
                c.final_gc = true;
                c.max_runs = 200;
                c
}

/// An entity that still carries a despawn tracker although no despawn reactor is registered for it any more (its only
/// one was revoked), despawned in the same batch as entities with live despawn reactors.
fn orphan_tracker_cfg(name: String, n: u32) -> Config
{
    let mut c = Config::base(&name);
    c.actors = vec![Variant::Plain, Variant::Plain];
    c.n_ents = 3;
    c.setup = vec![
        Op::RegisterNew(Variant::Plain, Bundle::one(Trig::Despawn(0)), Mode::Revokable),
        Op::Revoke(0),
        Op::Gc,
        Op::Register(1, Bundle::two(Trig::Despawn(1), Trig::Despawn(2)), Mode::Persistent),
    ];
    c.fixed_top = vec![Op::Run(0)];
    c.script = Arc::new(|_i: &DynInfo| vec![Op::Despawn(0), Op::Despawn(1), Op::Despawn(2), Op::Run(0), Op::Nop]);
    c.top = Arc::new(|_i: &DynInfo| vec![Op::Despawn(0), Op::Despawn(1), Op::Poll, Op::Run(0)]);
    c.max_top = 2;
    c.budget = n;
    c.max_per_run = 3;
    c.max_runs = 200;
    c.sym_actors = vec![];
    c
}

/// Systems whose entity survives without its system (`clear()` on a system command entity), next to ordinary stale
/// targets.
fn strip_cfg(name: String, n: u32) -> Config
{
                let mut c = Config::base(&name);
                c.actors = vec![Variant::Plain, Variant::Plain, Variant::Plain];
                c.n_ents = 1;
                c.setup = vec![
                    Op::Register(1, Bundle::two(Trig::Broadcast(Ev::A), Trig::EntityEvent(Ev::A, 0)), Mode::Persistent),
                    Op::Register(2, Bundle::two(Trig::Broadcast(Ev::A), Trig::Despawn(0)), Mode::Persistent),
                    Op::RegisterNew(Variant::Plain, Bundle::one(Trig::Broadcast(Ev::A)), Mode::Revokable),
                ];
                c.fixed_top = vec![Op::Run(0)];
                let alpha: AlphabetFn = Arc::new(|i: &DynInfo| {
                    let mut v = Vec::new();
                    for a in i.ready_actors() { v.push(Op::StripSys(a)); v.push(Op::Run(a)); v.push(Op::SysEvent(a)); }
                    v.push(Op::Broadcast(Ev::A));
                    v.push(Op::EntityEvent(Ev::A, 0));
                    v.push(Op::Despawn(0));
                    for k in i.ready_tokens() { v.push(Op::Revoke(k)); }
                    v
                });
                c.script = alpha.clone();
                c.top = alpha;
                c.max_top = 2;
                c.budget = n;
                c.max_per_run = 3;
                c.max_runs = 300;
                c.sym_actors = vec![];
                c.final_gc = true;
                c
}

fn item(cfg: Config, series: &str, bound: &str) -> PlanItem
{
    PlanItem{ cfg: Arc::new(cfg), bound: bound.to_string(), series: series.to_string() }
}

pub fn plan(property: &str, tier: Tier) -> Option<Plan>
{
    let q = tier == Tier::Quick;
    let p3 = vec![Variant::Plain, Variant::Plain, Variant::Plain];
    let mut items: Vec<PlanItem> = Vec::new();
    let (reports, rule, assumptions): (Vec<&'static str>, String, Vec<String>);
    let base_assumptions = vec![
        "bounded: every program with at most N chosen operations over the stated universe is executed on the real \
         crate; deeper trees are not covered".to_string(),
        "single-threaded Bevy executor; hooks (feature verif) only observe".to_string(),
    ];
    match property
    {
        "C02" =>
        {
            let ns: &[u32] = if q { &[3, 4] } else { &[4, 5, 6] };
            for &n in ns
            {
                items.push(item(core_cfg(format!("C02/plain3/L1/N{n}"), p3.clone(), &[1], n, 1, true), "plain3-L1", &format!("N={n}")));
            }
            let ns: &[u32] = if q { &[4] } else { &[4, 5] };
            for &n in ns
            {
                items.push(item(core_cfg(format!("C02/plain3/L012/N{n}"), p3.clone(), &[0, 1, 2], n, 1, true), "plain3-L012", &format!("N={n}")));
                items.push(item(core_cfg(format!("C02/err-excl/L01/N{n}"), vec![Variant::Erring, Variant::Exclusive, Variant::Plain], &[0, 1], n, 1, true), "err-excl-L01", &format!("N={n}")));
            }
            if !q
            {
                items.push(item(core_cfg("C02/plain3/L0/N5".into(), p3.clone(), &[], 5, 2, true), "plain3-L0-2trees", "N=5"));
            }
            // the same programs issued through the World-level API (World::send_system_event, World::broadcast,
            // SystemCommand::apply from a closure command)
            let ns: &[u32] = if q { &[4] } else { &[4, 5] };
            for &n in ns
            {
                let mut c = core_cfg(format!("C02/plain3-world/L1/N{n}"), p3.clone(), &[1], n, 1, true);
                c.world_route = true;
                items.push(item(c, "plain3-L1-world", &format!("N={n}")));
            }
            // reactions of every kind, including polled ones (removal), in a small kind-rich universe
            let ns: &[u32] = if q { &[3] } else { &[3, 4] };
            for &n in ns
            {
                let mut c = Config::base(&format!("C02/rich2/N{n}"));
                c.actors = vec![Variant::Plain, Variant::Plain, Variant::Plain];
                c.n_ents = 1;
                c.setup = {
                    let mut s = vec![Op::Insert(Comp::A, 0, 0)];
                    s.extend(rich_setup(&[0, 1], &[0], true, true));
                    s.push(Op::Register(2, Bundle::two(Trig::Removal(Comp::A), Trig::Despawn(0)), Mode::Persistent));
                    s
                };
                c.fixed_top = vec![Op::Run(0)];
                let inner = rich_alphabet(true, true, true, None);
                c.script = Arc::new(move |i: &DynInfo| inner(i).into_iter().filter(|op| op.actor() != Some(2)).collect());
                c.budget = n;
                c.max_runs = 400;
                items.push(item(c, "rich2", &format!("N={n}")));
            }
            // ref-counted despawn reactors: a despawn reaction detected while its reactor is executing is postponed, and
            // the handle that keeps the reactor alive travels with the postponed command
            let ns: &[u32] = if q { &[4] } else { &[4, 5, 6] };
            for &n in ns
            {
                let mut c = Config::base(&format!("C02/despawn-rc/N{n}"));
                c.actors = vec![Variant::Plain];
                c.n_ents = 2;
                c.setup = vec![
                    Op::RegisterNew(Variant::Plain, Bundle::two(Trig::Despawn(0), Trig::Despawn(1)), Mode::Cleanup),
                    Op::RegisterNew(Variant::Plain, Bundle::one(Trig::Despawn(1)), Mode::Cleanup),
                ];
                let alpha: AlphabetFn = Arc::new(|i: &DynInfo| {
                    let mut v = vec![Op::Despawn(0), Op::Despawn(1)];
                    for a in i.ready_actors() { v.push(Op::Run(a)); }
                    v.push(Op::SysEvent(0));
                    v
                });
                c.top = alpha.clone();
                c.script = alpha;
                c.max_top = 2;
                c.budget = n;
                c.max_per_run = 3;
                c.max_runs = 300;
                c.sym_actors = vec![];
                c.sym_ents = vec![];
                c.final_gc = true;
                items.push(item(c, "despawn-rc", &format!("N={n}")));
            }
            // deeper recursion shapes over plain runs only (three systems running themselves and each other): the replay
            // bookkeeping of nested frames
            let ns: &[u32] = if q { &[6, 7] } else { &[7, 8] };
            for &n in ns
            {
                let mut c = core_cfg(format!("C02/runs-only/N{n}"), p3.clone(), &[], n, 0, false);
                c.script = Arc::new(|_i: &DynInfo| vec![Op::Run(0), Op::Run(1), Op::Run(2)]);
                c.sym_actors = vec![vec![1, 2]];
                items.push(item(c, "runs-only", &format!("N={n}")));
            }
            reports = vec!["C02"];
            rule = "lazily enumerated programs over {Run, SysEvent, DespawnSys}x3 actors + Broadcast with preset \
                listeners; non-trivial = at least one system run; distinct = distinct canonical trace".into();
            assumptions = base_assumptions;
        }
        "C09" =>
        {
            let ns: &[u32] = if q { &[5] } else { &[4, 5, 6] };
            for &n in ns
            {
                let mut c = core_cfg(format!("C09/plain3/L1/N{n}"), p3.clone(), &[1], n, 0, false);
                let inner = c.script.clone();
                c.script = Arc::new(move |i: &DynInfo| { let mut v = inner(i); v.push(Op::Nop); v });
                items.push(item(c, "core+nop", &format!("N={n}")));
            }
            let ns: &[u32] = if q { &[3] } else { &[3, 4] };
            for &n in ns
            {
                let mut c = Config::base(&format!("C09/rich2/N{n}"));
                c.actors = vec![Variant::Plain, Variant::Plain];
                c.n_ents = 1;
                c.setup = { let mut s = vec![Op::Insert(Comp::A, 0, 0)]; s.extend(rich_setup(&[0, 1], &[0], false, true)); s };
                c.fixed_top = vec![Op::Run(0)];
                c.script = rich_alphabet(true, false, true, None);
                c.budget = n;
                c.max_runs = 400;
                items.push(item(c, "rich2", &format!("N={n}")));
            }
            // systems that vanish during their own run (or while commands for them are postponed)
            let ns: &[u32] = if q { &[4] } else { &[4, 5, 6] };
            for &n in ns
            {
                let c = core_cfg(format!("C09/plain3-despawn/L1/N{n}"), p3.clone(), &[1], n, 0, true);
                items.push(item(c, "core+despawn", &format!("N={n}")));
            }
            // exclusive / erring systems in the same shapes (their cleanup and command application paths differ)
            let ns: &[u32] = if q { &[4] } else { &[4, 5] };
            for &n in ns
            {
                let mut c = core_cfg(format!("C09/mixed3/L1/N{n}"), vec![Variant::Exclusive, Variant::Erring, Variant::Plain], &[1], n, 0, false);
                let inner = c.script.clone();
                c.script = Arc::new(move |i: &DynInfo| { let mut v = inner(i); v.push(Op::Nop); v });
                items.push(item(c, "mixed3+nop", &format!("N={n}")));
            }
            // several polled (despawn) reactions for one ref-counted reactor detected while that reactor is executing:
            // all of them are postponed, each must keep its target alive until it has been replayed
            let ns: &[u32] = if q { &[5, 6] } else { &[5, 6, 7] };
            for &n in ns
            {
                let mut c = Config::base(&format!("C09/polled-postponed/N{n}"));
                c.actors = vec![Variant::Plain, Variant::Plain];
                c.n_ents = 3;
                c.setup = vec![
                    Op::RegisterNew(Variant::Plain, Bundle::three(Trig::Despawn(0), Trig::Despawn(1), Trig::Despawn(2)), Mode::Cleanup),
                    Op::Register(1, Bundle::one(Trig::Despawn(1)), Mode::Persistent),
                ];
                c.top = Arc::new(|_i: &DynInfo| vec![Op::Despawn(0), Op::Poll, Op::Run(2)]);
                c.max_top = 2;
                c.script = Arc::new(|_i: &DynInfo| vec![Op::Despawn(0), Op::Despawn(1), Op::Despawn(2), Op::Run(0), Op::Run(2), Op::Nop]);
                c.budget = n;
                c.max_per_run = 3;
                c.max_runs = 200;
                c.final_gc = true;
                items.push(item(c, "polled-postponed", &format!("N={n}")));
            }
            reports = vec!["C09"];
            rule = "runner-core programs plus plain commands, and kind-rich programs (insertion / mutation / removal \
                reactions, events); non-trivial = at least one run; distinct = distinct canonical trace".into();
            assumptions = {
                let mut a = base_assumptions;
                a.push("weak reading of 'runs immediately': a postponed command must run after the busy execution ends \
                    and before the next command queued after that execution's in-line ancestor; order among postponed \
                    commands of different senders is recorded, not judged".into());
                a
            };
        }
        "C12" =>
        {
            let ns: &[u32] = if q { &[4, 5] } else { &[4, 5, 6] };
            for &n in ns
            {
                let mut c = Config::base(&format!("C12/deliver2/N{n}"));
                c.actors = vec![Variant::Plain, Variant::Plain];
                c.n_ents = 1;
                c.setup = { let mut s = vec![Op::Insert(Comp::A, 0, 0)]; s.extend(rich_setup(&[0, 1], &[0], false, false)); s };
                c.fixed_top = vec![Op::Run(0)];
                c.script = Arc::new(|i: &DynInfo| {
                    // only the first two runs send (one sender delivering a sequence, possibly relayed once)
                    if i.runs_so_far > 2 { return Vec::new(); }
                    let mut v = Vec::new();
                    for a in i.ready_actors() { v.push(Op::Run(a)); v.push(Op::SysEvent(a)); }
                    v.push(Op::Broadcast(Ev::A));
                    v.push(Op::EntityEvent(Ev::A, 0));
                    v.push(Op::Mutate(Comp::A, 0, How::GetMut));
                    v.push(Op::Insert(Comp::A, 0, 0));
                    v
                });
                c.budget = n;
                c.max_per_run = n;
                c.max_runs = 400;
                items.push(item(c, "deliver2", &format!("N={n}")));
            }
            let ns: &[u32] = if q { &[4] } else { &[5, 6] };
            for &n in ns
            {
                items.push(item(core_cfg(format!("C12/plain3/L1/N{n}"), p3.clone(), &[1], n, 0, true), "core3", &format!("N={n}")));
            }
            // the same deliveries with an exclusive sender / target and an error-returning target
            let ns: &[u32] = if q { &[3, 4] } else { &[4, 5, 6] };
            for &n in ns
            {
                for (label, variants) in [("excl-plain", vec![Variant::Exclusive, Variant::Plain]), ("err-excl", vec![Variant::Erring, Variant::Exclusive])]
                {
                    let mut c = Config::base(&format!("C12/deliver2-{label}/N{n}"));
                    c.actors = variants;
                    c.n_ents = 1;
                    c.setup = { let mut s = vec![Op::Insert(Comp::A, 0, 0)]; s.extend(rich_setup(&[0, 1], &[0], false, false)); s };
                    c.fixed_top = vec![Op::Run(0)];
                    c.script = Arc::new(|i: &DynInfo| {
                        if i.runs_so_far > 2 { return Vec::new(); }
                        let mut v = Vec::new();
                        for a in i.ready_actors() { v.push(Op::Run(a)); v.push(Op::SysEvent(a)); }
                        v.push(Op::Broadcast(Ev::A));
                        v.push(Op::EntityEvent(Ev::A, 0));
                        v.push(Op::Mutate(Comp::A, 0, How::GetMut));
                        v
                    });
                    c.budget = n;
                    c.max_per_run = n;
                    c.max_runs = 400;
                    c.sym_actors = vec![];
                    items.push(item(c, &format!("deliver2-{label}"), &format!("N={n}")));
                }
            }
            // deliveries sent from outside any tree while removals are waiting to be polled: the polled reactions run as
            // trees of their own inside the entry poll of the first delivery, after that delivery's data was prepared
            let ds: &[u32] = if q { &[4] } else { &[4, 5] };
            for &d in ds
            {
                let mut c = Config::base(&format!("C12/tops-polled/D{d}"));
                c.actors = vec![Variant::Plain, Variant::Plain];
                c.n_ents = 2;
                c.setup = {
                    let mut s = vec![Op::Insert(Comp::A, 0, 0), Op::Insert(Comp::A, 1, 0)];
                    s.extend(rich_setup(&[0, 1], &[0, 1], false, true));
                    s
                };
                c.top = Arc::new(|_i: &DynInfo| vec![
                    Op::RemoveComp(Comp::A, 0), Op::RemoveComp(Comp::A, 1), Op::Insert(Comp::A, 0, 1), Op::Insert(Comp::A, 1, 1),
                    Op::Mutate(Comp::A, 0, How::GetMut), Op::Broadcast(Ev::A), Op::EntityEvent(Ev::A, 0), Op::Run(0),
                ]);
                c.script = Arc::new(|i: &DynInfo| {
                    if i.runs_so_far > 2 { return Vec::new(); }
                    vec![Op::RemoveComp(Comp::A, 1), Op::Insert(Comp::A, 0, 0), Op::Run(1)]
                });
                c.max_top = d;
                c.budget = d + 1;
                c.max_per_run = 2;
                c.max_runs = 400;
                items.push(item(c, "tops-polled", &format!("D={d}")));
            }
            // ("each with its own data": the data rules are reported here too)
            reports = vec!["C12", "C03"];
            rule = "one or two sender runs delivering up to N items of every mix of kinds {Run, SysEvent, Broadcast, \
                EntityEvent, Mutation, Insertion} to two targets (busy self / parent, idle other), plus runner-core \
                programs; non-trivial = at least one run; distinct = distinct canonical trace".into();
            assumptions = base_assumptions;
        }
        "C13" =>
        {
            let ns: &[u32] = if q { &[4] } else { &[5, 6] };
            for &n in ns
            {
                items.push(item(core_cfg(format!("C13/plain3/L12/N{n}"), p3.clone(), &[1, 2], n, 1, false), "core3", &format!("N={n}")));
                items.push(item(core_cfg(format!("C13/mixed3/L1/N{n}"), vec![Variant::Plain, Variant::Exclusive, Variant::Erring], &[1], n, 1, true), "mixed3", &format!("N={n}")));
            }
            // frame boundaries between trees (App::update clears the world's change trackers) with exclusive systems,
            // whose parameter state Bevy would rebuild on re-initialisation
            let ns: &[u32] = if q { &[4] } else { &[4, 5] };
            for &n in ns
            {
                let mut c = core_cfg(format!("C13/frames/N{n}"), vec![Variant::Exclusive, Variant::Plain, Variant::Exclusive], &[1, 2], n, 3, false);
                c.update_after_top = true;
                items.push(item(c, "frames", &format!("N={n}")));
            }
            // reactors registered with App::add_reactor: several registrations of the same closure type, each must get
            // a system (and state) of its own
            let ns: &[u32] = if q { &[3] } else { &[3, 4] };
            for &n in ns
            {
                let mut c = Config::base(&format!("C13/app-reactors/N{n}"));
                c.actors = vec![Variant::Plain];
                c.n_ents = 1;
                c.app_reactors = vec![
                    (Variant::Plain, Bundle::one(Trig::Broadcast(Ev::A))),
                    (Variant::Plain, Bundle::two(Trig::Broadcast(Ev::B), Trig::ResMut)),
                    (Variant::Plain, Bundle::two(Trig::EntityEvent(Ev::A, 0), Trig::Broadcast(Ev::A))),
                ];
                let alpha: AlphabetFn = Arc::new(|i: &DynInfo| {
                    let mut v = vec![Op::Broadcast(Ev::A), Op::Broadcast(Ev::B), Op::ResMutate(How::GetMut), Op::EntityEvent(Ev::A, 0)];
                    for a in i.ready_actors() { v.push(Op::Run(a)); v.push(Op::SysEvent(a)); }
                    v
                });
                c.top = alpha.clone();
                c.script = alpha;
                c.max_top = 2;
                c.budget = n;
                c.max_per_run = 2;
                c.max_runs = 300;
                c.sym_actors = vec![];
                items.push(item(c, "app-reactors", &format!("N={n}")));
            }
            // one-off reactors of one closure type: each registration runs on its own state (a run attributed to a
            // reactor that has already run, or state that is never dropped, is state shared between registrations)
            let ds: &[u32] = if q { &[4] } else { &[4, 5] };
            for &d in ds
            {
                items.push(item(life_cfg(format!("C13/once-state/D{d}"), false, d), "once-state", &format!("D={d}")));
            }
            // systems that are despawned and registrations that are created at apply time in the same run: a new system may
            // get the entity index of one that has just vanished (and must still start from state of its own)
            let ns: &[u32] = if q { &[4] } else { &[4, 5] };
            for &n in ns
            {
                let mut c = Config::base(&format!("C13/respawn/N{n}"));
                c.world_route = true;
                c.actors = vec![Variant::Plain, Variant::Plain];
                c.n_ents = 1;
                c.setup = vec![Op::Register(0, Bundle::one(Trig::Broadcast(Ev::A)), Mode::Persistent)];
                let alpha: AlphabetFn = Arc::new(|i: &DynInfo| {
                    let mut v = Vec::new();
                    for a in i.ready_actors() { v.push(Op::DespawnSys(a)); v.push(Op::Run(a)); }
                    if i.n_actors < 4 { v.push(Op::RegisterNew(Variant::Plain, Bundle::one(Trig::Broadcast(Ev::A)), Mode::Persistent)); }
                    v.push(Op::Broadcast(Ev::A));
                    v
                });
                c.top = alpha.clone();
                c.script = alpha;
                c.max_top = 3;
                c.budget = n;
                c.max_per_run = 3;
                c.max_runs = 300;
                c.sym_actors = vec![];
                items.push(item(c, "respawn", &format!("N={n}")));
            }
            // a system's own entity changes archetype (an unrelated component is inserted on it) while the system is
            // executing, by itself or by a nested system; recursion makes later runs postponed ones
            let ns: &[u32] = if q { &[4] } else { &[4, 5] };
            for &n in ns
            {
                let mut c = core_cfg(format!("C13/tag-sys/N{n}"), p3.clone(), &[1], n, 1, false);
                let inner = c.script.clone();
                c.script = Arc::new(move |i: &DynInfo| { let mut v = inner(i); for a in all_actors(i) { v.push(Op::TagSys(a)); } v });
                items.push(item(c, "tag-sys", &format!("N={n}")));
            }
            // one very large tree (a fixed script of 4200 runs queued by one body), then runs from the top level: a
            // system's state must survive however many commands the tree before ran (the only place besides C10's bursts
            // where a size other than 0..3 is part of a universe; thresholds on the tree position are a realistic way
            // to lose state)
            {
                let mut c = Config::base("C13/big-tree/K4200");
                c.actors = vec![Variant::Plain, Variant::Plain, Variant::Plain];
                c.n_ents = 1;
                c.setup = vec![Op::Register(2, Bundle::one(Trig::Broadcast(Ev::A)), Mode::Persistent)];
                c.fixed_top = vec![Op::Run(0)];
                let mut big: Vec<Op> = Vec::new();
                for k in 0..4200u32 { big.push(if k % 7 == 6 { Op::Broadcast(Ev::A) } else { Op::Run(1) }); }
                c.fixed_scripts = vec![(0, 0, big), (0, 1, vec![]), (0, 2, vec![])];
                c.top = Arc::new(|_i: &DynInfo| vec![Op::Run(1), Op::Broadcast(Ev::A), Op::SysEvent(1), Op::Run(0)]);
                c.max_top = 2;
                c.script = Arc::new(|_i: &DynInfo| vec![]);
                c.budget = 2;
                c.max_runs = 20000;
                c.sym_actors = vec![];
                items.push(item(c, "big-tree", "K=4200"));
            }
            // (the lifetime rules of C07 are reported here too: state dropped while its system lives is a C13 matter)
            reports = vec!["C13", "C15", "C07"];
            rule = "runner-core programs over three registrations of the same closure type (and exclusive / erring \
                variants): at every run the Local counter and the captured counter equal the number of earlier runs of \
                that registration".into();
            assumptions = base_assumptions;
        }
        "C11" =>
        {
            let ns: &[u32] = if q { &[4] } else { &[5, 6] };
            for &n in ns
            {
                items.push(item(core_cfg(format!("C11/plain3/L1/N{n}"), p3.clone(), &[1], n, 2, true), "core3-trees", &format!("N={n}")));
            }
            let ns: &[u32] = if q { &[3] } else { &[3, 4] };
            for &n in ns
            {
                let mut c = Config::base(&format!("C11/rich2/N{n}"));
                c.actors = vec![Variant::Plain, Variant::Plain];
                c.n_ents = 2;
                c.setup = { let mut s = vec![Op::Insert(Comp::A, 0, 0)]; s.extend(rich_setup(&[0, 1], &[0, 1], true, true)); s };
                c.fixed_top = vec![Op::Run(0)];
                c.script = rich_alphabet(true, true, true, None);
                c.top = rich_alphabet(true, false, false, None);
                c.max_top = 1;
                c.budget = n;
                c.max_runs = 400;
                c.sym_ents = vec![];
                items.push(item(c, "rich2", &format!("N={n}")));
            }
            // differential probe: after arbitrary explored trees a fixed probe tree (dedicated actors 3 and 4, event
            // type B, entity 1 -- none of which the explored alphabet can name) must behave as on a fresh world
            let ns: &[u32] = if q { &[4] } else { &[4, 5] };
            for &n in ns
            {
                let mut c = Config::base(&format!("C11/probe/N{n}"));
                c.actors = vec![Variant::Plain, Variant::Plain, Variant::Erring, Variant::Plain, Variant::Plain];
                c.n_ents = 2;
                c.setup = vec![
                    Op::Register(1, Bundle::two(Trig::Broadcast(Ev::A), Trig::EntityEvent(Ev::A, 0)), Mode::Persistent),
                    Op::Register(2, Bundle::one(Trig::Broadcast(Ev::A)), Mode::Persistent),
                    Op::Register(4, Bundle::two(Trig::Broadcast(Ev::B), Trig::EntityEvent(Ev::B, 1)), Mode::Persistent),
                    Op::Register(3, Bundle::one(Trig::EntityEvent(Ev::B, 1)), Mode::Persistent),
                ];
                let alpha: AlphabetFn = Arc::new(|_i: &DynInfo| {
                    let mut v = Vec::new();
                    for a in 0..3u8 { v.push(Op::Run(a)); v.push(Op::SysEvent(a)); v.push(Op::DespawnSys(a)); }
                    v.push(Op::Broadcast(Ev::A));
                    v.push(Op::EntityEvent(Ev::A, 0));
                    v.push(Op::Despawn(0));
                    v
                });
                c.top = alpha.clone();
                c.script = alpha;
                c.max_top = 2;
                c.budget = n;
                c.max_runs = 300;
                c.final_ops = vec![Op::Run(3), Op::Broadcast(Ev::B)];
                c.fixed_scripts = vec![
                    (3, 0, vec![Op::Broadcast(Ev::B), Op::SysEvent(3), Op::Run(3), Op::EntityEvent(Ev::B, 1), Op::SysEvent(4)]),
                    (3, 1, vec![Op::Run(4)]),
                    (4, 0, vec![Op::SysEvent(3), Op::Run(4)]),
                ];
                items.push(item(c, "probe", &format!("N={n}")));
            }
            // chained auto-despawn: a trigger entity is itself auto-despawned and owns the last handle of reactors
            let ns: &[u32] = if q { &[4] } else { &[4, 5] };
            for &n in ns
            {
                items.push(item(chain_cfg(format!("C11/chain/N{n}"), n, false), "chain", &format!("N={n}")));
                items.push(item(chain_cfg(format!("C11/chain-watched/N{n}"), n, true), "chain-watched", &format!("N={n}")));
            }
            // a system whose closure owns the last auto-despawn signal of a watched entity disappears during its own run
            // (self-despawn, or its last revokable trigger revoked): dropping the callback releases the entity, and
            // the reactions to that despawn belong to the same tree
            let ns: &[u32] = if q { &[3] } else { &[3, 4] };
            for &n in ns
            {
                let mut c = Config::base(&format!("C11/owned/N{n}"));
                c.actors = vec![Variant::Plain, Variant::Plain];
                c.n_ents = 2;
                c.children = vec![(1, 0)];
                c.actor_signals = vec![(0, 0)];
                c.setup = vec![
                    Op::Insert(Comp::A, 0, 0), Op::Insert(Comp::A, 1, 0),
                    Op::Register(0, Bundle::one(Trig::Broadcast(Ev::A)), Mode::Revokable),
                    Op::Register(1, Bundle::three(Trig::Despawn(0), Trig::Despawn(1), Trig::Removal(Comp::A)), Mode::Persistent),
                ];
                let alpha: AlphabetFn = Arc::new(|i: &DynInfo| {
                    // (StripSys: the system's entity survives without its storage - the runner's "component missing on
                    // insert" branch discards the callback, and with it the signal the closure owns)
                    let mut v = vec![Op::Run(0), Op::Run(1), Op::SysEvent(0), Op::Broadcast(Ev::A), Op::DespawnSys(0), Op::StripSys(0)];
                    for k in i.ready_tokens() { v.push(Op::Revoke(k)); }
                    v
                });
                c.top = alpha.clone();
                c.script = alpha;
                c.max_top = 2;
                c.budget = n;
                c.max_per_run = 2;
                c.max_runs = 300;
                c.sym_actors = vec![];
                items.push(item(c, "owned", &format!("N={n}")));
            }
            // one-off reactors (their wrapper runs, despawns itself and revokes its own token inside the tree), with
            // bundles whose triggers can fire together
            let ds: &[u32] = if q { &[4] } else { &[4, 5] };
            for &d in ds
            {
                items.push(item(life_cfg(format!("C11/once-life/D{d}"), false, d), "once-life", &format!("D={d}")));
            }
            // systems stripped of their storage component (their entity stays): the runner's defensive branches must leave
            // the tree bookkeeping as clean as the ordinary ones
            let ns: &[u32] = if q { &[3] } else { &[3, 4] };
            for &n in ns
            {
                items.push(item(strip_cfg(format!("C11/strip/N{n}"), n), "strip", &format!("N={n}")));
            }
            let ns: &[u32] = if q { &[5] } else { &[5, 6] };
            for &n in ns
            {
                items.push(item(orphan_tracker_cfg(format!("C11/orphan-tracker/N{n}"), n), "orphan-tracker", &format!("N={n}")));
            }
            reports = vec!["C11"];
            rule = "every quiescent point of runner-core and kind-rich programs (aborted, postponed, discarded and \
                self-despawning commands; several trees per world): framework bookkeeping snapshot must be clean".into();
            assumptions = base_assumptions;
        }
        "C03" | "C04" =>
        {
            let is3 = property == "C03";
            let ns: &[u32] = if q { &[3] } else { &[3, 4, 5] };
            for &n in ns
            {
                let mut c = Config::base(&format!("{property}/rich/N{n}"));
                c.actors = if is3 { vec![Variant::Plain, Variant::Plain] } else { vec![Variant::Plain, Variant::Exclusive, Variant::Plain, Variant::Plain] };
                c.n_ents = 2;
                c.setup = { let mut s = vec![Op::Insert(Comp::A, 0, 0), Op::Insert(Comp::A, 1, 0)]; s.extend(rich_setup(&[0, 1], &[0, 1], true, true)); s };
                if !is3
                {
                    // actor 3 only listens to polled triggers and is never named by the alphabet: it runs at whatever
                    // poll point picks its reactions up, possibly in the middle of somebody else's event
                    c.setup.push(Op::Register(3, Bundle::three(Trig::Removal(Comp::A), Trig::Despawn(0), Trig::Despawn(1)), Mode::Persistent));
                }
                c.fixed_top = vec![Op::Run(0)];
                c.script = if is3 { rich_alphabet(true, true, true, None) } else
                {
                    let inner = rich_alphabet(true, true, true, Some(2));
                    Arc::new(move |i: &DynInfo| inner(i).into_iter().filter(|op| op.actor() != Some(3)).collect())
                };
                c.budget = n;
                c.max_runs = 600;
                items.push(item(c, "rich", &format!("N={n}")));
            }
            if is3
            {
                // events pending before a tree starts (removals / despawns not yet polled when the next command arrives)
                let ns: &[u32] = if q { &[3] } else { &[3, 4] };
                for &n in ns
                {
                    let mut c = Config::base(&format!("C03/tops/N{n}"));
                    c.actors = vec![Variant::Plain, Variant::Plain];
                    c.n_ents = 2;
                    c.setup = {
                        let mut s = vec![Op::Insert(Comp::A, 0, 0), Op::Insert(Comp::A, 1, 0)];
                        s.extend(rich_setup(&[0, 1], &[0, 1], true, true));
                        s.push(Op::Register(0, Bundle::two(Trig::Despawn(0), Trig::Despawn(1)), Mode::Persistent));
                        s
                    };
                    c.top = rich_alphabet(true, true, true, None);
                    c.script = rich_alphabet(true, false, true, None);
                    c.max_top = 3;
                    c.budget = n;
                    c.max_runs = 600;
                    items.push(item(c, "tops", &format!("N={n}")));
                }
            }
            if is3
            {
                let ns: &[u32] = if q { &[3] } else { &[3, 4] };
                for &n in ns
                {
                    let mut c = Config::base(&format!("C03/rich-world/N{n}"));
                    c.world_route = true;
                    c.actors = vec![Variant::Plain, Variant::Plain];
                    c.n_ents = 1;
                    c.setup = { let mut s = vec![Op::Insert(Comp::A, 0, 0)]; s.extend(rich_setup(&[0, 1], &[0], true, true)); s };
                    c.fixed_top = vec![Op::Run(0)];
                    c.script = rich_alphabet(true, true, true, None);
                    c.budget = n;
                    c.max_runs = 600;
                    items.push(item(c, "rich-world", &format!("N={n}")));
                }
            }
            if is3
            {
                // an exclusive reactor whose body flushes the world's command queue before it reads its event
                let ns: &[u32] = if q { &[2] } else { &[2, 3] };
                for &n in ns
                {
                    let mut c = Config::base(&format!("C03/excl-flush/N{n}"));
                    c.actors = vec![Variant::ExclusiveFlush, Variant::Plain];
                    c.n_ents = 1;
                    c.setup = { let mut s = vec![Op::Insert(Comp::A, 0, 0)]; s.extend(rich_setup(&[0, 1], &[0], true, true)); s };
                    c.fixed_top = vec![Op::Run(1)];
                    c.script = rich_alphabet(true, true, true, None);
                    c.budget = n;
                    c.max_runs = 600;
                    c.sym_actors = vec![];
                    items.push(item(c, "excl-flush", &format!("N={n}")));
                }
            }
            if is3
            {
                // exclusive and error-returning reactors reading every kind
                let ns: &[u32] = if q { &[3] } else { &[3, 4] };
                for &n in ns
                {
                    let mut c = Config::base(&format!("C03/variants/N{n}"));
                    c.actors = vec![Variant::Exclusive, Variant::Erring];
                    c.n_ents = 1;
                    c.setup = { let mut s = vec![Op::Insert(Comp::A, 0, 0)]; s.extend(rich_setup(&[0, 1], &[0], true, true)); s };
                    c.fixed_top = vec![Op::Run(0)];
                    c.script = rich_alphabet(true, true, true, None);
                    c.budget = n;
                    c.max_runs = 600;
                    c.sym_actors = vec![];
                    items.push(item(c, "variants", &format!("N={n}")));
                }
            }
            if is3
            {
                // listeners that die while events are in flight: a reaction scheduled for a dead reactor is skipped in
                // the middle of another event's listeners, which must still read their own event
                let ns: &[u32] = if q { &[3] } else { &[3, 4] };
                for &n in ns
                {
                    let mut c = Config::base(&format!("C03/faults/N{n}"));
                    c.actors = vec![Variant::Plain, Variant::Plain, Variant::Plain, Variant::Plain];
                    c.n_ents = 1;
                    c.setup = vec![
                        Op::Register(0, Bundle::two(Trig::Broadcast(Ev::A), Trig::EntityEvent(Ev::B, 0)), Mode::Persistent),
                        Op::Register(1, Bundle::two(Trig::Broadcast(Ev::A), Trig::EntityEvent(Ev::B, 0)), Mode::Persistent),
                        Op::Register(2, Bundle::two(Trig::Broadcast(Ev::A), Trig::EntityEvent(Ev::B, 0)), Mode::Persistent),
                        Op::Register(3, Bundle::two(Trig::EntityEvent(Ev::A, 0), Trig::Broadcast(Ev::B)), Mode::Persistent),
                    ];
                    c.fixed_top = vec![];
                    let alpha: AlphabetFn = Arc::new(|i: &DynInfo| {
                        let mut v = vec![Op::Broadcast(Ev::A), Op::EntityEvent(Ev::A, 0), Op::Broadcast(Ev::B), Op::EntityEvent(Ev::B, 0)];
                        for a in i.ready_actors() { v.push(Op::DespawnSys(a)); }
                        v.push(Op::SysEvent(3));
                        v
                    });
                    c.top = alpha.clone();
                    c.script = alpha;
                    c.max_top = 1;
                    c.budget = n;
                    c.max_per_run = 2;
                    c.max_runs = 400;
                    c.sym_actors = vec![vec![0, 1, 2]];
                    items.push(item(c, "faults", &format!("N={n}")));
                }
            }
            if !is3
            {
                // events whose target dies between queuing and applying (aborted deliveries), followed by runs that
                // react to nothing: the aborted event must not be readable by anybody
                let ns: &[u32] = if q { &[3] } else { &[3, 4] };
                for &n in ns
                {
                    let mut c = Config::base(&format!("C04/faults/N{n}"));
                    c.actors = vec![Variant::Plain, Variant::Plain, Variant::Plain];
                    c.n_ents = 1;
                    c.setup = vec![
                        Op::Register(0, Bundle::two(Trig::Broadcast(Ev::A), Trig::EntityEvent(Ev::A, 0)), Mode::Persistent),
                        Op::Register(1, Bundle::two(Trig::Broadcast(Ev::A), Trig::EntityEvent(Ev::A, 0)), Mode::Persistent),
                        Op::Register(1, Bundle::one(Trig::ResMut), Mode::Persistent),
                    ];
                    let alpha: AlphabetFn = Arc::new(|i: &DynInfo| {
                        let mut v = vec![Op::Broadcast(Ev::A), Op::EntityEvent(Ev::A, 0), Op::Broadcast(Ev::B), Op::ResMutate(How::GetMut)];
                        for a in i.ready_actors() { if a != 2 { v.push(Op::SysEvent(a)); v.push(Op::DespawnSys(a)); } }
                        // the probe (actor 2, no registrations) reacts to nothing
                        v.push(Op::Run(2));
                        v
                    });
                    c.top = alpha.clone();
                    c.script = alpha;
                    c.max_top = 3;
                    c.budget = n;
                    c.max_per_run = 3;
                    c.max_runs = 400;
                    c.sym_actors = vec![];
                    items.push(item(c, "faults", &format!("N={n}")));
                }
            }
            if !is3
            {
                let ns: &[u32] = if q { &[3] } else { &[3, 4] };
                for &n in ns
                {
                    let mut c = Config::base(&format!("C04/erring/N{n}"));
                    c.actors = vec![Variant::Erring, Variant::Plain, Variant::Plain];
                    c.n_ents = 1;
                    c.setup = { let mut s = vec![Op::Insert(Comp::A, 0, 0)]; s.extend(rich_setup(&[0, 1], &[0], true, false)); s };
                    c.fixed_top = vec![Op::SysEvent(0)];
                    c.script = rich_alphabet(true, false, false, Some(2));
                    c.budget = n;
                    c.max_runs = 600;
                    items.push(item(c, "erring", &format!("N={n}")));
                }
            }
            if !is3
            {
                // one-off reactors (their wrapper runs the system and the event cleanup by itself): what they queue must
                // not see the event they reacted to
                let ns: &[u32] = if q { &[6] } else { &[6, 7] };
                for &n in ns
                {
                    let mut c = Config::base(&format!("C04/once/N{n}"));
                    c.actors = vec![Variant::Plain, Variant::Plain, Variant::Plain];
                    c.n_ents = 1;
                    c.setup = vec![Op::Register(1, Bundle::one(Trig::ResMut), Mode::Persistent)];
                    c.top = Arc::new(|i: &DynInfo| {
                        let mut v = Vec::new();
                        if i.n_actors < 5
                        {
                            v.push(Op::Once(Variant::Plain, Bundle::one(Trig::Broadcast(Ev::A))));
                            v.push(Op::Once(Variant::Plain, Bundle::one(Trig::EntityEvent(Ev::A, 0))));
                            v.push(Op::Once(Variant::NoTake, Bundle::one(Trig::Broadcast(Ev::B))));
                        }
                        v.push(Op::Broadcast(Ev::A));
                        v.push(Op::Broadcast(Ev::B));
                        v.push(Op::EntityEvent(Ev::A, 0));
                        for a in i.ready_actors() { if a >= 3 { v.push(Op::SysEvent(a)); } }
                        v
                    });
                    c.script = Arc::new(|_i: &DynInfo| vec![Op::Run(2), Op::ResMutate(How::GetMut), Op::Broadcast(Ev::A)]);
                    c.max_top = 4;
                    c.budget = n;
                    c.max_per_run = 2;
                    c.max_runs = 400;
                    c.sym_actors = vec![];
                    items.push(item(c, "once", &format!("N={n}")));
                }
            }
            if !is3
            {
                // reactors queuing through `DeferredWorld::commands()`: their commands sit on the world's own queue and
                // run at the first flush after the body - the release of the event data by the last reader, or the
                // runner's next poll - where nothing may still read the event. Only reader visibility is judged here.
                let ns: &[u32] = if q { &[4] } else { &[4, 5, 6] };
                for &n in ns
                {
                    let mut c = Config::base(&format!("C04/deferred/N{n}"));
                    c.actors = vec![Variant::Deferred, Variant::Deferred, Variant::Plain];
                    c.n_ents = 1;
                    c.setup = vec![
                        Op::Register(0, Bundle::two(Trig::Broadcast(Ev::A), Trig::EntityEvent(Ev::A, 0)), Mode::Persistent),
                        Op::Register(1, Bundle::two(Trig::Broadcast(Ev::A), Trig::EntityEvent(Ev::B, 0)), Mode::Persistent),
                        Op::Register(1, Bundle::one(Trig::ResMut), Mode::Persistent),
                    ];
                    let alpha: AlphabetFn = Arc::new(|_i: &DynInfo| {
                        vec![Op::Broadcast(Ev::A), Op::EntityEvent(Ev::A, 0), Op::EntityEvent(Ev::B, 0), Op::ResMutate(How::GetMut),
                            Op::SysEvent(0), Op::SysEvent(1), Op::Run(2)]
                    });
                    c.top = alpha.clone();
                    c.script = alpha;
                    c.max_top = 2;
                    c.budget = n;
                    c.max_per_run = 2;
                    c.max_runs = 400;
                    c.sym_actors = vec![];
                    c.only_props = vec!["C03", "C04", "C05"];
                    items.push(item(c, "deferred", &format!("N={n}")));
                }
            }
            reports = vec![if is3 { "C03" } else { "C04" }];
            rule = "kind-rich programs: two actors registered for every trigger kind type-wide and entity-scoped (several \
                metadata entries per system pending at once); readers of every kind sampled at the start of every \
                run; C04 adds a probe actor with no registration run at every script position, exclusive and erring \
                reactors".into();
            assumptions = base_assumptions;
        }
        "C05" =>
        {
            let ns: &[u32] = if q { &[3, 4] } else { &[4, 5, 6] };
            for &n in ns
            {
                let mut c = Config::base(&format!("C05/faults/N{n}"));
                c.actors = vec![Variant::Plain, Variant::Plain, Variant::NoTake];
                c.n_ents = 1;
                c.setup = vec![
                    // (actor 0 is registered twice for the broadcast: persistent registrations are not de-duplicated, it
                    // reads the event twice)
                    Op::Register(0, Bundle::three(Trig::Broadcast(Ev::A), Trig::EntityEvent(Ev::A, 0), Trig::Broadcast(Ev::A)), Mode::Persistent),
                    Op::Register(1, Bundle::two(Trig::Broadcast(Ev::A), Trig::AnyEntityEvent(Ev::A)), Mode::Persistent),
                    Op::Register(2, Bundle::one(Trig::EntityEvent(Ev::A, 0)), Mode::Persistent),
                ];
                c.fixed_top = vec![];
                let alpha: AlphabetFn = Arc::new(|i: &DynInfo| {
                    let mut v = Vec::new();
                    v.push(Op::Broadcast(Ev::A));
                    v.push(Op::Broadcast(Ev::B));
                    v.push(Op::EntityEvent(Ev::A, 0));
                    // an entity event of a type nobody listens to, aimed at an entity that has reactors of another type
                    v.push(Op::EntityEvent(Ev::B, 0));
                    for a in i.ready_actors() { v.push(Op::SysEvent(a)); v.push(Op::DespawnSys(a)); }
                    v.push(Op::Despawn(0));
                    // the hierarchy-aware despawn (takes whatever has been parented to the target with it)
                    v.push(Op::DespawnRecursive(0));
                    v
                });
                c.script = alpha.clone();
                c.top = alpha;
                c.max_top = 2;
                c.budget = n;
                c.max_runs = 400;
                items.push(item(c, "faults", &format!("N={n}")));
            }
            {
                let ns: &[u32] = if q { &[3] } else { &[4, 5] };
                for &n in ns
                {
                    let mut c = Config::base(&format!("C05/faults-world/N{n}"));
                    c.world_route = true;
                    c.actors = vec![Variant::Plain, Variant::Plain, Variant::NoTake];
                    c.n_ents = 1;
                    c.setup = vec![
                        Op::Register(0, Bundle::two(Trig::Broadcast(Ev::A), Trig::EntityEvent(Ev::A, 0)), Mode::Persistent),
                        Op::Register(1, Bundle::two(Trig::Broadcast(Ev::A), Trig::AnyEntityEvent(Ev::A)), Mode::Persistent),
                        Op::Register(2, Bundle::one(Trig::EntityEvent(Ev::A, 0)), Mode::Persistent),
                    ];
                    let alpha: AlphabetFn = Arc::new(|i: &DynInfo| {
                        let mut v = vec![Op::Broadcast(Ev::A), Op::Broadcast(Ev::B), Op::EntityEvent(Ev::A, 0)];
                        for a in i.ready_actors() { v.push(Op::SysEvent(a)); v.push(Op::DespawnSys(a)); }
                        v.push(Op::Despawn(0));
                        v
                    });
                    c.script = alpha.clone();
                    c.top = alpha;
                    c.max_top = 2;
                    c.budget = n;
                    c.max_runs = 400;
                    items.push(item(c, "faults-world", &format!("N={n}")));
                }
            }
            // exactly one listener per event (the reader count of one): a separate universe, because with persistent
            // registrations the number of listeners of a type never shrinks
            let ns: &[u32] = if q { &[4, 5] } else { &[4, 5, 6] };
            for &n in ns
            {
                let mut c = Config::base(&format!("C05/single/N{n}"));
                c.actors = vec![Variant::Plain, Variant::Plain, Variant::Plain];
                c.n_ents = 1;
                c.setup = vec![
                    Op::Register(0, Bundle::one(Trig::Broadcast(Ev::A)), Mode::Persistent),
                    Op::Register(1, Bundle::one(Trig::EntityEvent(Ev::A, 0)), Mode::Persistent),
                    Op::Register(2, Bundle::one(Trig::AnyEntityEvent(Ev::B)), Mode::Persistent),
                ];
                let alpha: AlphabetFn = Arc::new(|i: &DynInfo| {
                    let mut v = vec![Op::Broadcast(Ev::A), Op::EntityEvent(Ev::A, 0), Op::EntityEvent(Ev::B, 0)];
                    for a in i.ready_actors() { v.push(Op::DespawnSys(a)); }
                    v.push(Op::SysEvent(0));
                    v
                });
                c.script = alpha.clone();
                c.top = alpha;
                c.max_top = 2;
                c.budget = n;
                c.max_runs = 400;
                items.push(item(c, "single", &format!("N={n}")));
            }
            // an exclusive listener whose body flushes the world's command queue
            let ns: &[u32] = if q { &[2] } else { &[2, 3] };
            for &n in ns
            {
                let mut c = Config::base(&format!("C05/excl-flush/N{n}"));
                c.actors = vec![Variant::ExclusiveFlush, Variant::Plain];
                c.n_ents = 1;
                c.setup = vec![
                    Op::Register(0, Bundle::two(Trig::Broadcast(Ev::A), Trig::EntityEvent(Ev::A, 0)), Mode::Persistent),
                    Op::Register(1, Bundle::one(Trig::Broadcast(Ev::A)), Mode::Persistent),
                ];
                let alpha: AlphabetFn = Arc::new(|_i: &DynInfo| {
                    vec![Op::Broadcast(Ev::A), Op::EntityEvent(Ev::A, 0), Op::SysEvent(0), Op::SysEvent(1), Op::Run(0)]
                });
                c.script = alpha.clone();
                c.top = alpha;
                c.max_top = 1;
                c.budget = n;
                c.max_runs = 400;
                c.sym_actors = vec![];
                items.push(item(c, "excl-flush", &format!("N={n}")));
            }
            // exclusive, error-returning and non-taking listeners under the same faults
            let ns: &[u32] = if q { &[3] } else { &[4, 5] };
            for &n in ns
            {
                let mut c = Config::base(&format!("C05/variants/N{n}"));
                c.actors = vec![Variant::Exclusive, Variant::Erring, Variant::NoTake];
                c.n_ents = 1;
                c.setup = vec![
                    Op::Register(0, Bundle::two(Trig::Broadcast(Ev::A), Trig::EntityEvent(Ev::A, 0)), Mode::Persistent),
                    Op::Register(1, Bundle::two(Trig::Broadcast(Ev::A), Trig::AnyEntityEvent(Ev::A)), Mode::Persistent),
                    Op::Register(2, Bundle::two(Trig::EntityEvent(Ev::A, 0), Trig::Broadcast(Ev::A)), Mode::Persistent),
                ];
                let alpha: AlphabetFn = Arc::new(|i: &DynInfo| {
                    let mut v = vec![Op::Broadcast(Ev::A), Op::EntityEvent(Ev::A, 0)];
                    for a in i.ready_actors() { v.push(Op::SysEvent(a)); v.push(Op::DespawnSys(a)); }
                    v.push(Op::Despawn(0));
                    v
                });
                c.script = alpha.clone();
                c.top = alpha;
                c.max_top = 2;
                c.budget = n;
                c.max_runs = 400;
                c.sym_actors = vec![];
                items.push(item(c, "variants", &format!("N={n}")));
            }
            // one-off reactors among the readers of an event (their wrapper runs the reader and then cleans itself up)
            let ns: &[u32] = if q { &[3] } else { &[3, 4, 5] };
            for &n in ns
            {
                let mut c = Config::base(&format!("C05/once/N{n}"));
                c.actors = vec![Variant::Plain, Variant::Plain];
                c.n_ents = 1;
                c.setup = vec![
                    Op::Once(Variant::Plain, Bundle::two(Trig::Broadcast(Ev::A), Trig::EntityEvent(Ev::A, 0))),
                    Op::Register(1, Bundle::two(Trig::Broadcast(Ev::A), Trig::EntityEvent(Ev::A, 0)), Mode::Persistent),
                ];
                let alpha: AlphabetFn = Arc::new(|i: &DynInfo| {
                    let mut v = vec![Op::Broadcast(Ev::A), Op::EntityEvent(Ev::A, 0), Op::SysEvent(1)];
                    if i.n_actors < 5
                    {
                        v.push(Op::Once(Variant::Plain, Bundle::one(Trig::Broadcast(Ev::A))));
                        v.push(Op::Once(Variant::Plain, Bundle::one(Trig::AnyEntityEvent(Ev::A))));
                    }
                    v
                });
                c.script = alpha.clone();
                c.top = alpha;
                c.max_top = 3;
                c.budget = n;
                c.max_per_run = 2;
                c.max_runs = 300;
                c.sym_actors = vec![];
                c.final_gc = true;
                items.push(item(c, "once", &format!("N={n}")));
            }
            // reactions of other kinds (insertion / mutation / resource) nested between the readers of one event
            let ns: &[u32] = if q { &[3, 4, 5] } else { &[3, 4, 5, 6] };
            for &n in ns
            {
                let mut c = Config::base(&format!("C05/mixed/N{n}"));
                c.actors = vec![Variant::Plain, Variant::Plain, Variant::Plain];
                c.n_ents = 1;
                c.setup = vec![
                    Op::Insert(Comp::A, 0, 0),
                    Op::Register(0, Bundle::two(Trig::Broadcast(Ev::A), Trig::EntityEvent(Ev::A, 0)), Mode::Persistent),
                    Op::Register(1, Bundle::two(Trig::Broadcast(Ev::A), Trig::EntityEvent(Ev::A, 0)), Mode::Persistent),
                    Op::Register(2, Bundle::three(Trig::Mutation(Comp::A), Trig::EntityInsertion(Comp::A, 0), Trig::ResMut), Mode::Persistent),
                ];
                let alpha: AlphabetFn = Arc::new(|_i: &DynInfo| {
                    vec![
                        Op::Broadcast(Ev::A), Op::EntityEvent(Ev::A, 0), Op::SysEvent(0), Op::SysEvent(2),
                        Op::Mutate(Comp::A, 0, How::GetMut), Op::Insert(Comp::A, 0, 1), Op::ResMutate(How::GetMut),
                        Op::RemoveComp(Comp::A, 0),
                    ]
                });
                c.script = alpha.clone();
                c.top = alpha;
                c.max_top = 1;
                c.budget = n;
                c.max_per_run = 2;
                c.max_runs = 400;
                c.sym_actors = vec![vec![0, 1]];
                items.push(item(c, "mixed", &format!("N={n}")));
            }
            reports = vec!["C05"];
            rule = "events with 0..3 listeners (entity-scoped + type-wide, taking and non-taking system-event readers) \
                and fault ops (despawn listener system, despawn target entity) placed by earlier listeners between \
                scheduling and running, listeners postponed by recursion, events to dead systems/entities".into();
            assumptions = base_assumptions;
        }

        "C01" | "C06" =>
        {
            let is1 = property == "C01";
            // trigger groups whose members share map keys / lists
            let groups: Vec<(&str, Vec<Trig>, Vec<Op>)> = vec![
                ("events", vec![Trig::Broadcast(Ev::A), Trig::Broadcast(Ev::B), Trig::EntityEvent(Ev::A, 0), Trig::AnyEntityEvent(Ev::A)],
                    vec![Op::Broadcast(Ev::A), Op::Broadcast(Ev::B), Op::EntityEvent(Ev::A, 0), Op::EntityEvent(Ev::A, 1)]),
                ("components", vec![Trig::Insertion(Comp::A), Trig::Mutation(Comp::A), Trig::EntityInsertion(Comp::A, 0), Trig::EntityMutation(Comp::A, 0)],
                    vec![Op::Insert(Comp::A, 0, 0), Op::Insert(Comp::A, 1, 0), Op::Mutate(Comp::A, 0, How::GetMut), Op::Mutate(Comp::B, 0, How::GetMut)]),
                ("resource-entity", vec![Trig::ResMut, Trig::EntityMutation(Comp::A, 0), Trig::EntityMutation(Comp::A, 1), Trig::EntityEvent(Ev::A, 1)],
                    vec![Op::ResMutate(How::GetMut), Op::Mutate(Comp::A, 0, How::GetMut), Op::Mutate(Comp::A, 1, How::GetMut), Op::EntityEvent(Ev::A, 1), Op::EntityEvent(Ev::B, 1)]),
                // polled triggers: type-wide and entity-scoped removal reactors share one removal tracker per component type
                ("removals", vec![Trig::Removal(Comp::A), Trig::EntityRemoval(Comp::A, 0), Trig::EntityRemoval(Comp::A, 1), Trig::Removal(Comp::B)],
                    vec![Op::RemoveComp(Comp::A, 0), Op::RemoveComp(Comp::A, 1), Op::Insert(Comp::A, 0, 1), Op::Poll]),
            ];
            for (gname, trigs, fires) in groups
            {
                // (a)/(b): top-level histories
                let ds: &[u32] = if q { &[4] } else { &[4, 5] };
                for &d in ds
                {
                    let mut c = Config::base(&format!("{property}/hist/{gname}/D{d}"));
                    c.actors = vec![Variant::Plain, Variant::Plain];
                    c.n_ents = 2;
                    c.setup = vec![Op::Insert(Comp::A, 0, 0), Op::Insert(Comp::A, 1, 0), Op::Insert(Comp::B, 0, 0)];
                    if gname == "removals"
                    {
                        // present from the start: an entity-scoped removal reactor that must keep working whatever
                        // happens to the type-wide ones, and a revokable type-wide one (token 0)
                        c.setup.push(Op::Register(0, Bundle::one(Trig::EntityRemoval(Comp::A, 0)), Mode::Persistent));
                        c.setup.push(Op::RegisterNew(Variant::Plain, Bundle::one(Trig::Removal(Comp::A)), Mode::Revokable));
                    }
                    let trigs2 = trigs.clone();
                    let fires2 = fires.clone();
                    let bundles: Vec<Bundle> = if is1
                    {
                        let mut b: Vec<Bundle> = trigs2.iter().map(|t| Bundle::one(*t)).collect();
                        // an entity-scoped trigger on entity 0 ahead of a type-wide one in the same bundle: a token
                        // is walked in order, and entity 0 may be gone by then
                        let scoped = trigs2.iter().copied().find(|t| t.entity() == Some(0));
                        let wide = trigs2.iter().copied().find(|t| t.entity().is_none());
                        if let (Some(sc), Some(w)) = (scoped, wide) { b.push(Bundle::two(sc, w)); }
                        b
                    }
                    else
                    {
                        // C06: multi-trigger bundles (pairs across kinds / same kind, a triple)
                        let mut b: Vec<Bundle> = vec![Bundle::one(trigs2[0]), Bundle::two(trigs2[0], trigs2[1]), Bundle::two(trigs2[2], trigs2[3]),
                            Bundle::three(trigs2[0], trigs2[1], trigs2[0])];
                        b.push(Bundle::three(trigs2[0], trigs2[2], Trig::Despawn(1)));
                        // a despawn trigger on the entity the alphabet can despawn: between the despawn and the poll that
                        // detects it the registration still exists and can be revoked
                        b.push(Bundle::two(Trig::Despawn(0), trigs2[0]));
                        b
                    };
                    c.top = Arc::new(move |i: &DynInfo| {
                        let mut v = Vec::new();
                        for b in bundles.iter()
                        {
                            if i.n_actors < 4
                            {
                                v.push(Op::RegisterNew(Variant::Plain, *b, Mode::Revokable));
                                if is1 { v.push(Op::RegisterNew(Variant::Plain, *b, Mode::Cleanup)); }
                            }
                            for a in 0..2u8 { v.push(Op::Register(a, *b, Mode::Persistent)); }
                        }
                        for k in i.ready_tokens() { v.push(Op::Revoke(k)); }
                        for f in fires2.iter() { v.push(*f); }
                        if is1
                        {
                            for a in i.ready_actors() { v.push(Op::DespawnSys(a)); }
                        }
                        // tokens naming an entity that has been despawned since
                        v.push(Op::Despawn(0));
                        v
                    });
                    c.max_top = d;
                    c.budget = d;
                    c.sym_actors = vec![vec![0, 1]];
                    c.final_gc = true;
                    c.max_runs = 200;
                    items.push(item(c, &format!("hist-{gname}"), &format!("D={d}")));
                }
                // (polled triggers start no tree: only the top-level histories make sense for them)
                if gname == "removals" { continue; }
                // fires issued through the World-level API
                if is1
                {
                    let d = if q { 3 } else { 4 };
                    let mut c = Config::base(&format!("C01/hist-world/{gname}/D{d}"));
                    c.world_route = true;
                    c.actors = vec![Variant::Plain, Variant::Plain];
                    c.n_ents = 2;
                    c.setup = vec![Op::Insert(Comp::A, 0, 0), Op::Insert(Comp::A, 1, 0), Op::Insert(Comp::B, 0, 0)];
                    let trigs2 = trigs.clone();
                    let fires2 = fires.clone();
                    c.top = Arc::new(move |i: &DynInfo| {
                        let mut v = Vec::new();
                        for t in trigs2.iter()
                        {
                            if i.n_actors < 4 { v.push(Op::RegisterNew(Variant::Plain, Bundle::one(*t), Mode::Revokable)); }
                            for a in 0..2u8 { v.push(Op::Register(a, Bundle::one(*t), Mode::Persistent)); }
                        }
                        for k in i.ready_tokens() { v.push(Op::Revoke(k)); }
                        for f in fires2.iter() { v.push(*f); }
                        v.push(Op::Despawn(0));
                        v
                    });
                    c.max_top = d;
                    c.budget = d;
                    c.sym_actors = vec![vec![0, 1]];
                    c.final_gc = true;
                    c.max_runs = 200;
                    items.push(item(c, &format!("hist-world-{gname}"), &format!("D={d}")));
                }
                // (c): edits while a dispatch is in flight
                let ns: &[u32] = if q { &[3] } else { &[3, 4] };
                for &n in ns
                {
                    let mut c = Config::base(&format!("{property}/intree/{gname}/N{n}"));
                    c.actors = vec![Variant::Plain, Variant::Plain, Variant::Plain];
                    c.n_ents = 2;
                    let t0 = trigs[0];
                    let t1 = trigs[2];
                    c.setup = vec![
                        Op::Insert(Comp::A, 0, 0), Op::Insert(Comp::A, 1, 0), Op::Insert(Comp::B, 0, 0),
                        Op::Register(0, Bundle::one(t0), Mode::Persistent),
                        Op::RegisterNew(Variant::Plain, Bundle::two(t0, t1), Mode::Revokable),
                        Op::Register(1, Bundle::two(t0, t1), Mode::Persistent),
                    ];
                    if !is1
                    {
                        // a reactor holding two separately revokable registrations: it survives the revocation of
                        // one of them, so anything still delivered for the revoked one is observable
                        c.setup.push(Op::Register(2, Bundle::one(t0), Mode::Revokable));
                        c.setup.push(Op::Register(2, Bundle::one(t1), Mode::Revokable));
                    }
                    // a second top-level trigger after the tree: whatever the tree left behind (scratch buffers,
                    // stale table entries) meets a fresh trigger application
                    c.fixed_top = vec![fires[0], fires[1]];
                    let fires2 = fires.clone();
                    let trigs2 = trigs.clone();
                    c.script = Arc::new(move |i: &DynInfo| {
                        let mut v = Vec::new();
                        for k in i.ready_tokens() { v.push(Op::Revoke(k)); }
                        v.push(fires2[0]);
                        v.push(fires2[2]);
                        // the trigger entity despawned in the same batch as an operation on it (e.g. an insert that
                        // fails when applied)
                        v.push(Op::Despawn(0));
                        v.push(Op::Register(2, Bundle::one(trigs2[0]), Mode::Persistent));
                        if i.n_actors < 5 { v.push(Op::RegisterNew(Variant::Plain, Bundle::one(trigs2[0]), Mode::Revokable)); }
                        v.push(Op::DespawnSys(1));
                        v.push(Op::DespawnSys(3));
                        v
                    });
                    c.budget = n;
                    c.max_runs = 300;
                    c.final_gc = true;
                    items.push(item(c, &format!("intree-{gname}"), &format!("N={n}")));
                }
            }
            // registration / revocation through an entity world reactor (EntityCommands::add_world_reactor,
            // EntityReactor::remove) next to ordinary registrations on the same entities
            {
                let ds: &[u32] = if q { &[4] } else { &[4, 5] };
                for &d in ds
                {
                    let mut c = Config::base(&format!("{property}/ewr/D{d}"));
                    c.actors = vec![Variant::Plain, Variant::Plain];
                    c.ewr = Some(Variant::Plain);
                    c.n_ents = 2;
                    c.setup = vec![Op::Insert(Comp::A, 0, 0), Op::Insert(Comp::A, 1, 0)];
                    let alpha: AlphabetFn = Arc::new(move |_i: &DynInfo| {
                        let mut v = Vec::new();
                        for e in 0..2u8
                        {
                            v.push(Op::EwrAdd(e));
                            for w in 0..3u8 { v.push(Op::EwrRemove(e, w)); }
                            v.push(Op::EntityEvent(Ev::A, e));
                            v.push(Op::Mutate(Comp::A, e, How::GetMut));
                        }
                        v.push(Op::Register(0, Bundle::one(Trig::EntityEvent(Ev::A, 0)), Mode::Persistent));
                        v.push(Op::Register(0, Bundle::one(Trig::EntityMutation(Comp::A, 1)), Mode::Persistent));
                        v.push(Op::Despawn(0));
                        v
                    });
                    c.top = alpha.clone();
                    c.script = alpha;
                    c.max_top = d;
                    c.budget = d;
                    c.max_per_run = 2;
                    c.sym_actors = vec![];
                    c.final_gc = true;
                    c.max_runs = 200;
                    items.push(item(c, "ewr", &format!("D={d}")));
                }
            }
            // (a polled reaction that a live, untouched registration never gets is a skipped registration (C01) / a
            // registration disturbed by somebody else's revocation (C06) as much as a missed removal (C08))
            reports = vec![if is1 { "C01" } else { "C06" }, "C08"];
            rule = "histories of register (new reactor in each mode / existing reactor) / revoke / fire / despawn over \
                trigger groups that share keys (events; component tables; resource + entity-scoped), at top level (depth \
                D) and from inside reactor bodies while a dispatch is in flight (budget N); every fire must reach \
                exactly the live matching registrations and the implementation's tables must equal the abstract table \
                at every quiescent point".into();
            assumptions = {
                let mut a = base_assumptions;
                a.push("two separate revokable registrations of the same reactor for the same trigger are not generated \
                    (their revocation semantics are not defined by the statement)".into());
                a
            };
        }
        "C07" | "C15" =>
        {
            let is7 = property == "C07";
            let ds: &[u32] = if q { &[4] } else { &[4, 5, 6] };
            for &d in ds
            {
                items.push(item(life_cfg(format!("{property}/life/D{d}"), is7, d), "life", &format!("D={d}")));
            }
            #[cfg(any())]
            for &d in ds
            {
                let mut c = Config::base(&format!("{property}/life/D{d}"));
                c.actors = vec![Variant::Plain];
                c.n_ents = 2;
                let bundles = vec![
                    Bundle::EMPTY,
                    Bundle::one(Trig::Broadcast(Ev::A)),
                    Bundle::one(Trig::EntityEvent(Ev::A, 0)),
                    Bundle::one(Trig::Despawn(0)),
                    Bundle::two(Trig::Despawn(0), Trig::Despawn(1)),
                    Bundle::two(Trig::EntityEvent(Ev::A, 0), Trig::Despawn(1)),
                    Bundle::two(Trig::Broadcast(Ev::A), Trig::ResMut),
                    // the same trigger twice in one bundle: two registrations, one token names both
                    Bundle::three(Trig::Broadcast(Ev::A), Trig::ResMut, Trig::Broadcast(Ev::A)),
                ];
                c.top = Arc::new(move |i: &DynInfo| {
                    let mut v = Vec::new();
                    if i.n_actors < 3
                    {
                        for b in bundles.iter()
                        {
                            if is7
                            {
                                for m in [Mode::Persistent, Mode::Cleanup, Mode::Revokable] { v.push(Op::RegisterNew(Variant::Plain, *b, m)); }
                            }
                            else { v.push(Op::Once(Variant::Plain, *b)); }
                        }
                    }
                    for k in i.ready_tokens() { v.push(Op::Revoke(k)); }
                    // a reactor despawned by hand: its handles become stale entries of the auto-despawn channel
                    if is7 { for a in i.ready_actors() { if a != 0 { v.push(Op::DespawnSys(a)); } } }
                    v.push(Op::Broadcast(Ev::A));
                    v.push(Op::EntityEvent(Ev::A, 0));
                    v.push(Op::ResMutate(How::GetMut));
                    v.push(Op::Despawn(0));
                    v.push(Op::Despawn(1));
                    v.push(Op::Gc);
                    v.push(Op::Poll);
                    v.push(Op::Run(0));
                    v
                });
                // new reactors (and actor 0) fire triggers from inside their runs (self-triggering, nested, several
                // triggers in one tree)
                c.script = Arc::new(move |_i: &DynInfo| {
                    let mut v = vec![Op::Broadcast(Ev::A), Op::EntityEvent(Ev::A, 0), Op::Despawn(0), Op::ResMutate(How::GetMut)];
                    // a (despawn) reactor that despawns the other watched entity and then runs another system: the
                    // second despawn is detected while the reactor is still executing
                    if is7 { v.push(Op::Despawn(1)); v.push(Op::Run(0)); }
                    v
                });
                c.max_top = d;
                c.budget = d + 1;
                c.max_per_run = 2;
                c.final_gc = true;
                c.max_runs = 200;
                items.push(item(c, "life", &format!("D={d}")));
            }
            // second series: triggers that share one table entry per component type (insertion / mutation / removal
            // lists), type-wide and entity-scoped, so that revoking one reactor's trigger edits a structure that also
            // holds other reactors' handles
            let ds: &[u32] = if q { &[4, 5] } else { &[4, 5, 6] };
            for &d in ds
            {
                let mut c = Config::base(&format!("{property}/life-comp/D{d}"));
                c.actors = vec![Variant::Plain];
                c.n_ents = 1;
                c.setup = vec![Op::Insert(Comp::A, 0, 0)];
                let mut bundles = vec![
                    Bundle::one(Trig::Insertion(Comp::A)),
                    Bundle::one(Trig::Mutation(Comp::A)),
                    Bundle::one(Trig::Removal(Comp::A)),
                    Bundle::two(Trig::EntityMutation(Comp::A, 0), Trig::Mutation(Comp::B)),
                ];
                if !is7
                {
                    // entity-scoped removal: its revoke token must name the same table entry its registration made
                    bundles.push(Bundle::one(Trig::EntityRemoval(Comp::A, 0)));
                    bundles.push(Bundle::two(Trig::EntityRemoval(Comp::A, 0), Trig::Mutation(Comp::A)));
                }
                c.top = Arc::new(move |i: &DynInfo| {
                    let mut v = Vec::new();
                    if i.n_actors < 4
                    {
                        for b in bundles.iter()
                        {
                            if is7
                            {
                                for m in [Mode::Cleanup, Mode::Revokable] { v.push(Op::RegisterNew(Variant::Plain, *b, m)); }
                            }
                            else { v.push(Op::Once(Variant::Plain, *b)); }
                        }
                    }
                    for k in i.ready_tokens() { v.push(Op::Revoke(k)); }
                    v.push(Op::Insert(Comp::A, 0, 1));
                    v.push(Op::Mutate(Comp::A, 0, How::GetMut));
                    if !is7 { v.push(Op::RemoveComp(Comp::A, 0)); v.push(Op::Poll); }
                    v.push(Op::Gc);
                    v
                });
                c.max_top = d;
                c.budget = d;
                c.final_gc = true;
                c.max_runs = 200;
                items.push(item(c, "life-comp", &format!("D={d}")));
            }
            if is7
            {
                // reactors added with App::add_reactor are persistent: they survive the loss of all their (entity-bound)
                // triggers
                let ds: &[u32] = if q { &[4] } else { &[4, 5] };
                for &d in ds
                {
                    let mut c = Config::base(&format!("C07/app-persistent/D{d}"));
                    c.actors = vec![Variant::Plain];
                    c.n_ents = 2;
                    c.app_reactors = vec![
                        (Variant::Plain, Bundle::two(Trig::Despawn(0), Trig::Despawn(1))),
                        (Variant::Plain, Bundle::two(Trig::EntityEvent(Ev::A, 0), Trig::Despawn(0))),
                    ];
                    let alpha: AlphabetFn = Arc::new(|_i: &DynInfo| vec![Op::Despawn(0), Op::Despawn(1), Op::EntityEvent(Ev::A, 0), Op::Poll, Op::Gc, Op::Run(0)]);
                    c.top = alpha.clone();
                    c.script = alpha;
                    c.max_top = d;
                    c.budget = d;
                    c.max_per_run = 2;
                    c.final_gc = true;
                    c.max_runs = 200;
                    c.sym_actors = vec![];
                    items.push(item(c, "app-persistent", &format!("D={d}")));
                }
            }
            if is7
            {
                let ns: &[u32] = if q { &[4] } else { &[4, 5] };
                for &n in ns
                {
                    items.push(item(chain_cfg(format!("C07/chain/N{n}"), n, false), "chain", &format!("N={n}")));
                    items.push(item(chain_cfg(format!("C07/chain-watched/N{n}"), n, true), "chain-watched", &format!("N={n}")));
                }
            }
            reports = vec![if is7 { "C07" } else { "C15" }];
            rule = if is7 {
                "histories of registering new reactors (every mode x bundles incl. empty, despawn triggers, entity \
                 triggers that may name dead entities), revoke, fire, despawn trigger entities, explicit garbage \
                 collection and polling; liveness of every reactor sampled at every command marker and compared with the \
                 abstract reference count; captured canary drop <=> reactor gone".into()
            } else {
                "histories of one-off reactors (bundles incl. empty and multi-trigger), fires at top level and from \
                 inside runs (self-triggering, several triggers in one tree), revoke at any point, garbage collection; \
                 run count <= 1, entity and registrations gone afterwards".into()
            };
            assumptions = base_assumptions;
        }
        "C08" =>
        {
            for update in [false, true]
            {
                let ds: &[u32] = if q { if update { &[3] } else { &[4] } } else { &[4, 5, 6] };
                for &d in ds
                {
                    let mut c = Config::base(&format!("C08/{}/D{d}", if update { "frames" } else { "flush" }));
                    c.actors = vec![Variant::Plain, Variant::Plain];
                    c.n_ents = 2;
                    c.children = vec![(1, 0)];
                    c.setup = vec![
                        Op::Insert(Comp::A, 0, 0), Op::Insert(Comp::A, 1, 0),
                        Op::Register(0, Bundle::two(Trig::Removal(Comp::A), Trig::Despawn(0)), Mode::Persistent),
                        Op::Register(1, Bundle::three(Trig::EntityRemoval(Comp::A, 0), Trig::Despawn(0), Trig::Despawn(1)), Mode::Persistent),
                    ];
                    let alpha: AlphabetFn = Arc::new(move |i: &DynInfo| {
                        let mut v = vec![
                            Op::Insert(Comp::A, 0, 1), Op::Insert(Comp::A, 1, 1),
                            Op::RemoveComp(Comp::A, 0), Op::RemoveComp(Comp::A, 1),
                            Op::Despawn(0), Op::Despawn(1), Op::DespawnRecursive(0),
                            Op::Run(0), Op::Run(1), Op::Clear(1),
                        ];
                        if !update { v.push(Op::Poll); }
                        if i.n_actors < 3 { v.push(Op::RegisterNew(Variant::Plain, Bundle::two(Trig::Removal(Comp::A), Trig::Despawn(1)), Mode::Cleanup)); }
                        v
                    });
                    c.top = alpha.clone();
                    c.script = alpha;
                    c.max_top = d;
                    c.budget = d;
                    c.max_per_run = 2;
                    c.update_after_top = update;
                    c.final_gc = !update;
                    c.max_runs = 200;
                    items.push(item(c, if update { "frames" } else { "flush" }, &format!("D={d}")));
                }
            }
            // reactors added with `App::add_reactor` *before* `ReactPlugin` (a legal order): the end-of-frame poll must
            // exist whoever set the cache up first
            {
                let ds: &[u32] = if q { &[4] } else { &[4, 5] };
                for &d in ds
                {
                    let mut c = Config::base(&format!("C08/frames-plugin-late/D{d}"));
                    c.actors = vec![Variant::Plain];
                    c.plugin_late = true;
                    c.app_reactors = vec![
                        (Variant::Plain, Bundle::two(Trig::Removal(Comp::A), Trig::Despawn(0))),
                        (Variant::Plain, Bundle::three(Trig::EntityRemoval(Comp::A, 0), Trig::Despawn(0), Trig::Despawn(1))),
                    ];
                    c.n_ents = 2;
                    c.setup = vec![Op::Insert(Comp::A, 0, 0), Op::Insert(Comp::A, 1, 0)];
                    let alpha: AlphabetFn = Arc::new(move |_i: &DynInfo| {
                        vec![
                            Op::Insert(Comp::A, 0, 1), Op::RemoveComp(Comp::A, 0), Op::RemoveComp(Comp::A, 1),
                            Op::Despawn(0), Op::Despawn(1), Op::Run(0),
                        ]
                    });
                    c.top = alpha.clone();
                    c.script = alpha;
                    c.max_top = d;
                    c.budget = d;
                    c.max_per_run = 2;
                    c.update_after_top = true;
                    c.max_runs = 200;
                    c.sym_actors = vec![];
                    items.push(item(c, "frames-plugin-late", &format!("D={d}")));
                }
            }
            // real frames: operations issued by plain Bevy systems of the Update schedule (chained with sync points, or
            // unordered with deferred commands applied together), polled by the Last schedule of the same update
            for chained in [true, false]
            {
                let fs: &[u32] = if q { &[1] } else { &[1, 2] };
                for &f in fs
                {
                    let mut c = Config::base(&format!("C08/systems-{}/F{f}", if chained { "chained" } else { "unordered" }));
                    c.actors = vec![Variant::Plain, Variant::Plain];
                    c.n_ents = 2;
                    c.children = vec![(1, 0)];
                    c.setup = vec![
                        Op::Insert(Comp::A, 0, 0), Op::Insert(Comp::A, 1, 0),
                        Op::Register(0, Bundle::two(Trig::Removal(Comp::A), Trig::Despawn(0)), Mode::Persistent),
                        Op::Register(1, Bundle::three(Trig::EntityRemoval(Comp::A, 0), Trig::Despawn(0), Trig::Despawn(1)), Mode::Persistent),
                    ];
                    let alpha: AlphabetFn = Arc::new(move |_i: &DynInfo| {
                        vec![
                            Op::Insert(Comp::A, 0, 1), Op::Insert(Comp::A, 1, 1),
                            Op::RemoveComp(Comp::A, 0), Op::RemoveComp(Comp::A, 1),
                            Op::Despawn(0), Op::Despawn(1), Op::DespawnRecursive(0), Op::Clear(1),
                            Op::Run(0), Op::Run(1),
                        ]
                    });
                    c.top = alpha.clone();
                    c.script = alpha;
                    c.frame = Some((3, chained));
                    c.max_top = f;
                    c.budget = 3 * f + 1;
                    c.max_per_run = 1;
                    c.update_after_top = true;
                    c.max_runs = 200;
                    items.push(item(c, if chained { "systems-chained" } else { "systems-unordered" }, &format!("F={f}")));
                }
            }
            // no type-wide reactor for the component at all: only entity-scoped removal reactors
            let ds: &[u32] = if q { &[4] } else { &[4, 5, 6] };
            for &d in ds
            {
                let mut c = Config::base(&format!("C08/entity-only/D{d}"));
                c.actors = vec![Variant::Plain, Variant::Plain];
                c.n_ents = 2;
                c.setup = vec![
                    Op::Insert(Comp::A, 0, 0), Op::Insert(Comp::A, 1, 0),
                    Op::Register(0, Bundle::two(Trig::EntityRemoval(Comp::A, 0), Trig::EntityRemoval(Comp::A, 1)), Mode::Persistent),
                    Op::Register(1, Bundle::one(Trig::EntityRemoval(Comp::A, 1)), Mode::Persistent),
                ];
                let alpha: AlphabetFn = Arc::new(move |i: &DynInfo| {
                    let mut v = vec![
                        Op::Insert(Comp::A, 0, 1), Op::Insert(Comp::A, 1, 1),
                        Op::RemoveComp(Comp::A, 0), Op::RemoveComp(Comp::A, 1),
                        Op::Despawn(1), Op::Poll, Op::Run(0),
                    ];
                    // type-wide reactors of the same component that come and go (they share the component's removal
                    // tracker with the entity-scoped removal reactors)
                    if i.n_actors < 4
                    {
                        v.push(Op::RegisterNew(Variant::Plain, Bundle::one(Trig::Removal(Comp::A)), Mode::Revokable));
                        v.push(Op::RegisterNew(Variant::Plain, Bundle::one(Trig::Mutation(Comp::A)), Mode::Revokable));
                        // a revokable entity-scoped removal reactor (its revocation edits the entity's own list)
                        v.push(Op::RegisterNew(Variant::Plain, Bundle::one(Trig::EntityRemoval(Comp::A, 0)), Mode::Revokable));
                    }
                    for k in i.ready_tokens() { v.push(Op::Revoke(k)); }
                    v
                });
                c.top = alpha.clone();
                c.script = alpha;
                c.max_top = d;
                c.budget = d;
                c.max_per_run = 2;
                c.final_gc = true;
                c.max_runs = 200;
                items.push(item(c, "entity-only", &format!("D={d}")));
            }
            // two reactive component types on the same entities (one poll walks the removal trackers of both types)
            for order in ["ab", "ba"]
            {
                let ds: &[u32] = if q { &[3] } else { &[4, 5] };
                for &d in ds
                {
                    let mut c = Config::base(&format!("C08/two-comps-{order}/D{d}"));
                    c.actors = vec![Variant::Plain, Variant::Plain];
                    c.n_ents = 2;
                    let ra = Op::Register(0, Bundle::two(Trig::Removal(Comp::A), Trig::EntityRemoval(Comp::A, 1)), Mode::Persistent);
                    let rb = Op::Register(1, Bundle::two(Trig::Removal(Comp::B), Trig::EntityRemoval(Comp::B, 0)), Mode::Persistent);
                    c.setup = vec![Op::Insert(Comp::A, 0, 0), Op::Insert(Comp::B, 0, 0), Op::Insert(Comp::A, 1, 0), Op::Insert(Comp::B, 1, 0)];
                    if order == "ab" { c.setup.push(ra); c.setup.push(rb); } else { c.setup.push(rb); c.setup.push(ra); }
                    let alpha: AlphabetFn = Arc::new(move |_i: &DynInfo| {
                        vec![
                            Op::RemoveComp(Comp::A, 0), Op::RemoveComp(Comp::B, 0), Op::RemoveComp(Comp::A, 1), Op::RemoveComp(Comp::B, 1),
                            Op::Insert(Comp::A, 0, 1), Op::Insert(Comp::B, 0, 1),
                            Op::Despawn(0), Op::Clear(1), Op::Poll, Op::Run(0),
                        ]
                    });
                    c.top = alpha.clone();
                    c.script = alpha;
                    c.max_top = d;
                    c.budget = d;
                    c.max_per_run = 2;
                    c.final_gc = true;
                    c.max_runs = 200;
                    c.sym_actors = vec![];
                    c.sym_ents = vec![];
                    items.push(item(c, &format!("two-comps-{order}"), &format!("D={d}")));
                }
            }
            // three watched entities, one ref-counted reactor whose only triggers are their despawns and one persistent
            // reactor: several despawns detected by one poll while the reactor is executing (each postponed reaction
            // must keep its reactor alive until it has been replayed)
            let ns: &[u32] = if q { &[5] } else { &[5, 6] };
            for &n in ns
            {
                let mut c = Config::base(&format!("C08/despawn-many/N{n}"));
                c.actors = vec![Variant::Plain, Variant::Plain];
                c.n_ents = 3;
                c.setup = vec![
                    Op::RegisterNew(Variant::Plain, Bundle::three(Trig::Despawn(0), Trig::Despawn(1), Trig::Despawn(2)), Mode::Cleanup),
                    Op::Register(1, Bundle::three(Trig::Despawn(0), Trig::Despawn(1), Trig::Despawn(2)), Mode::Persistent),
                ];
                c.top = Arc::new(|_i: &DynInfo| vec![Op::Despawn(0), Op::Despawn(1), Op::Poll, Op::Run(2)]);
                c.max_top = 2;
                c.script = Arc::new(|_i: &DynInfo| vec![Op::Despawn(0), Op::Despawn(1), Op::Despawn(2), Op::Run(0), Op::Run(2)]);
                c.budget = n;
                c.max_per_run = 3;
                c.max_runs = 200;
                c.final_gc = true;
                items.push(item(c, "despawn-many", &format!("N={n}")));
            }
            let ns: &[u32] = if q { &[5] } else { &[5, 6] };
            for &n in ns
            {
                items.push(item(orphan_tracker_cfg(format!("C08/orphan-tracker/N{n}"), n), "orphan-tracker", &format!("N={n}")));
            }
            reports = vec!["C08"];
            rule = "histories of insert / remove / re-insert / despawn / recursive despawn of a parent (entity 1 is a child \
                of entity 0) at top level and from inside reactor runs, with type-wide and entity-scoped removal \
                reactors, one or two despawn reactors per entity, explicit polls ('flush' series) or a full App::update \
                after every top-level operation ('frames' series: polled by the Last schedule); the monitor requires \
                exactly one reaction per removal / despawn per registration live throughout, by the end of the \
                enclosing tree or the next poll, and none without a cause".into();
            assumptions = {
                let mut a = base_assumptions;
                a.push("plain Bevy systems of an App are represented by top-level command batches followed by \
                    App::update(); every order of the operations is enumerated, parallel system execution is Bevy's \
                    domain".into());
                a.push("reactors registered after a removal but before the poll that sees it may or may not react (not \
                    judged); entity-scoped removal reactors of a despawned entity are not required to run".into());
                a
            };
        }
        "C14" =>
        {
            // (`accessors-observer`: a plain Bevy observer on OnInsert of the component mirrors every insert on entity 0 onto
            // entity 1 through ReactCommands::insert, so another insert of the same type is applied and scheduled between
            // an insert and the command that schedules its reactions)
            for (route, world_route, single_route, observer) in [("accessors", false, false, false), ("accessors-single", false, true, false),
                ("accessors-world", true, false, false), ("accessors-observer", false, false, true)]
            {
            let ns: &[u32] = if q { &[3] } else if route == "accessors" { &[3, 4, 5] } else { &[3, 4] };
            for &n in ns
            {
                let mut c = Config::base(&format!("C14/{route}/N{n}"));
                c.world_route = world_route;
                c.single_route = single_route;
                c.mirror_observer = observer;
                c.actors = vec![Variant::Plain, Variant::Plain];
                c.n_ents = 2;
                c.actors = vec![Variant::Plain, Variant::Plain, Variant::Plain];
                c.setup = vec![
                    Op::Insert(Comp::A, 0, 0),
                    // a probe reactor registered ahead of the main probe; the alphabet can despawn its system while its
                    // registrations stay in the tables
                    Op::Register(2, Bundle::three(Trig::Insertion(Comp::A), Trig::Mutation(Comp::A), Trig::ResMut), Mode::Persistent),
                    Op::Register(1, Bundle::three(Trig::Insertion(Comp::A), Trig::Mutation(Comp::A), Trig::ResMut), Mode::Persistent),
                    Op::Register(1, Bundle::two(Trig::EntityMutation(Comp::A, 0), Trig::EntityInsertion(Comp::A, 1)), Mode::Persistent),
                    // both probes listen entity-scoped on entity 0 to both kinds: the entity's own list interleaves the
                    // kinds (mutation, insertion, mutation, insertion, mutation)
                    Op::Register(2, Bundle::two(Trig::EntityInsertion(Comp::A, 0), Trig::EntityMutation(Comp::A, 0)), Mode::Persistent),
                    Op::Register(1, Bundle::two(Trig::EntityInsertion(Comp::A, 0), Trig::EntityMutation(Comp::A, 0)), Mode::Persistent),
                ];
                c.fixed_top = vec![Op::Run(0)];
                let alpha: AlphabetFn = Arc::new(|i: &DynInfo| {
                    // the probe reactors (actors 1 and 2) do nothing
                    if let Where::Script(r, _) = i.at { if r.actor != 0 { return Vec::new(); } }
                    let mut v = Vec::new();
                    for e in 0..2u8
                    {
                        for how in [How::GetMut, How::SetIfNeq(0), How::SetIfNeq(1), How::NoReact(1), How::Read, How::Trigger]
                        {
                            v.push(Op::Mutate(Comp::A, e, how));
                        }
                        v.push(Op::Insert(Comp::A, e, 0));
                        v.push(Op::Insert(Comp::A, e, 1));
                    }
                    for how in [How::GetMut, How::SetIfNeq(0), How::SetIfNeq(1), How::NoReact(1), How::Read, How::Trigger]
                    {
                        v.push(Op::ResMutate(how));
                    }
                    // body-time accessors (only meaningful inside a system body)
                    if let Where::Script(_, _) = i.at
                    {
                        for e in 0..2u8
                        {
                            for how in [How::GetMut, How::SetIfNeq(0), How::SetIfNeq(1), How::NoReact(0)] { v.push(Op::MutateNow(e, how)); }
                        }
                    }
                    v.push(Op::Despawn(1));
                    v.push(Op::Despawn(0));
                    v.push(Op::RemoveComp(Comp::A, 0));
                    v.push(Op::Run(0));
                    v.push(Op::DespawnSys(2));
                    v
                });
                c.script = alpha.clone();
                c.top = alpha;
                c.sym_actors = vec![];
                c.max_top = 1;
                c.budget = n;
                c.max_per_run = 3;
                c.max_runs = 300;
                items.push(item(c, route, &format!("N={n}")));
            }
            }
            // the registrations of this universe are fixed, so a dispatch-count mismatch is a trigger-count mismatch
            reports = vec!["C14", "C01"];
            rule = "every accessor of reactive components and resources (get_mut, set_if_neq with equal / different value, \
                get_noreact, read, trigger_mutation / trigger_resource_mutation) and ReactCommands::insert on an entity \
                that is alive, has / lacks the component, or is despawned between queuing and applying, 1..3 calls per \
                run; a probe reactor listens type-wide and entity-scoped; reaction count per call, stored value and \
                set_if_neq's returned old value are compared with the abstract state".into();
            assumptions = {
                let mut a = base_assumptions;
                a.push("accessors are exercised through ReactiveMut / ReactResMut inside a syscall issued by the command \
                    (apply-time semantics); the `single*` convenience wrappers (which panic unless exactly one entity \
                    matches) are not exercised".into());
                a
            };
        }
        "C18" =>
        {
            let ns: &[u32] = if q { &[3] } else { &[3, 4] };
            for &n in ns
            {
                let mut c = Config::base(&format!("C18/stale/N{n}"));
                c.actors = vec![Variant::Plain, Variant::Plain];
                c.ewr = Some(Variant::Plain);
                c.n_ents = 2;
                c.setup = vec![
                    Op::Insert(Comp::A, 0, 0),
                    Op::Register(1, Bundle::three(Trig::Broadcast(Ev::A), Trig::AnyEntityEvent(Ev::A), Trig::Insertion(Comp::A)), Mode::Persistent),
                    Op::Register(1, Bundle::three(Trig::EntityEvent(Ev::A, 0), Trig::EntityMutation(Comp::A, 0), Trig::Mutation(Comp::A)), Mode::Persistent),
                    Op::RegisterNew(Variant::Plain, Bundle::three(Trig::Broadcast(Ev::A), Trig::EntityEvent(Ev::A, 0), Trig::Despawn(0)), Mode::Revokable),
                ];
                c.fixed_top = vec![Op::Run(0)];
                let alpha: AlphabetFn = Arc::new(|i: &DynInfo| {
                    let mut v = Vec::new();
                    // despawn points
                    v.push(Op::Despawn(0));
                    for a in i.ready_actors() { v.push(Op::DespawnSys(a)); }
                    // every operation that names a target
                    for a in i.ready_actors() { v.push(Op::Run(a)); v.push(Op::SysEvent(a)); }
                    v.push(Op::Broadcast(Ev::A));
                    v.push(Op::EntityEvent(Ev::A, 0));
                    v.push(Op::Insert(Comp::A, 0, 1));
                    v.push(Op::Mutate(Comp::A, 0, How::GetMut));
                    v.push(Op::Mutate(Comp::A, 0, How::Trigger));
                    v.push(Op::RemoveComp(Comp::A, 0));
                    v.push(Op::Register(1, Bundle::two(Trig::EntityEvent(Ev::B, 0), Trig::Despawn(0)), Mode::Persistent));
                    if i.n_actors < 5 { v.push(Op::RegisterNew(Variant::Plain, Bundle::two(Trig::EntityMutation(Comp::A, 0), Trig::Despawn(0)), Mode::Cleanup)); }
                    for k in i.ready_tokens() { v.push(Op::Revoke(k)); }
                    // attaching / detaching a possibly stale entity to / from an entity world reactor
                    v.push(Op::EwrAdd(0));
                    v.push(Op::EwrRemove(0, 2));
                    v
                });
                c.script = alpha.clone();
                c.top = alpha;
                c.max_top = 2;
                c.budget = n;
                c.max_per_run = 3;
                c.max_runs = 300;
                c.final_gc = true;
                items.push(item(c, "stale", &format!("N={n}")));
            }
            // systems whose entity survives without its system (`clear()` on a system command entity)
            let ns: &[u32] = if q { &[3] } else { &[3, 4] };
            for &n in ns
            {
                let c = strip_cfg(format!("C18/strip/N{n}"), n);
                items.push(item(c, "strip", &format!("N={n}")));
            }
            // in this universe every operation names a target that may be stale: an unreleased payload, leftover
            // bookkeeping or an undischarged command for a dead target is a stale reference that was not harmless
            reports = vec!["C18", "C05", "C11", "C02"];
            rule = "fault enumeration: every public operation naming a system, reactor or entity (run, system event, \
                entity event, insert, mutate, trigger, remove, register existing / new reactor with entity triggers, \
                revoke) combined with despawns of its target before it is queued, between queuing and applying, after \
                scheduling and before the reaction runs, while postponed, and during the target's own run; no panic, \
                nothing runs for a dead target, payloads released, tables of other registrations intact".into();
            assumptions = base_assumptions;
        }
        _ => return None,
    }
    Some(Plan{ property: leak(property), items, reports, rule, assumptions })
}

fn leak(s: &str) -> &'static str { Box::leak(s.to_string().into_boxed_str()) }

pub const ALL: &[&str] = &[
    "C01", "C02", "C03", "C04", "C05", "C06", "C07", "C08", "C09", "C10", "C11", "C12", "C13", "C14", "C15", "C16",
    "C17", "C18",
];

/// Finds a configuration by its unique name (for replay).
pub fn config_by_name(name: &str) -> Option<Arc<Config>>
{
    for p in ALL
    {
        for t in [Tier::Quick, Tier::Thorough]
        {
            if let Some(plan) = plan(p, t)
            {
                for it in plan.items { if it.cfg.name == name { return Some(it.cfg); } }
            }
        }
    }
    None
}
