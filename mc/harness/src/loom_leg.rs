//! C10 concurrent leg: runs the `loom-c10` binary (real auto_despawn.rs under loom) in a child process.

use crate::checks::Tier;
use crate::es_checks::EsRun;
use serde_json::{json, Value};
use std::process::Command;
use std::sync::Mutex;

static LAST: Mutex<Option<Value>> = Mutex::new(None);

pub fn describe() -> Value
{
    LAST.lock().unwrap().clone().unwrap_or(json!({"status": "not run"}))
}

const BIN: &str = "/verif/mc/target/mc/loom-c10";

/// Returns the run summary (None if skipped) and an exit code contribution (0 ok, 2 machinery error).
pub fn run(tier: Tier) -> (Option<EsRun>, i32)
{
    if !std::path::Path::new(BIN).exists()
    {
        // The copied file did not compile stand-alone against loom (the check driver removes the binary then):
        // the leg is skipped, the verdict rests on the sequential leg.
        *LAST.lock().unwrap() = Some(json!({"status": "skipped: loom build of the copied auto_despawn.rs not available"}));
        println!("C10: loom leg skipped (binary not built)");
        return (None, 0);
    }
    let mut cmd = Command::new(BIN);
    if tier == Tier::Thorough { cmd.arg("--thorough"); }
    cmd.env_remove("LOOM_MAX_PREEMPTIONS");
    let out = match cmd.output()
    {
        Ok(o) => o,
        Err(e) => { eprintln!("machinery error: cannot run {BIN}: {e}"); return (None, 2); }
    };
    let stdout = String::from_utf8_lossy(&out.stdout).to_string();
    let stderr = String::from_utf8_lossy(&out.stderr).to_string();
    let mut schedules: u64 = 0;
    let mut scenarios: Vec<String> = Vec::new();
    for line in stdout.lines()
    {
        if let Some(rest) = line.strip_prefix("SCENARIO ")
        {
            scenarios.push(rest.to_string());
            if let Some(n) = rest.split("schedules=").nth(1).and_then(|s| s.split_whitespace().next()).and_then(|s| s.parse::<u64>().ok())
            {
                schedules += n;
            }
        }
    }
    let mut run = EsRun{
        label: "loom".into(), depth: 0, states: scenarios.len(), transitions: schedules, fixpoint: true, capped: false,
        states_per_depth: Vec::new(),
        samples: scenarios.iter().map(|s| json!(s)).collect(),
        violations: Vec::new(),
    };
    if !out.status.success()
    {
        // loom reports a failing interleaving by panicking: that is a violation of the property
        let msg: String = stderr.lines().filter(|l| l.contains("panicked") || l.contains("clone") || l.contains("despawn") || l.contains("signal") || l.contains("collection"))
            .take(4).collect::<Vec<_>>().join(" | ");
        let sig = if stderr.contains("while") && stderr.contains("clone(s) still exist") { "loom:despawned-while-clone-exists" }
            else if stderr.contains("not despawned by the first collection") { "loom:not-despawned-after-last-drop" }
            else if stderr.contains("descendant survived") { "loom:descendant-survived" }
            else if stderr.contains("stale despawn signal") { "loom:stale-signal" }
            else if stderr.contains("second collection") { "loom:gc-not-idempotent" }
            else { "loom:failure" };
        if sig == "loom:failure" && !stderr.contains("panicked")
        {
            eprintln!("machinery error: loom child failed without a verdict: {}", stderr.chars().take(400).collect::<String>());
            return (None, 2);
        }
        run.violations.push((sig.to_string(), format!("loom found a failing interleaving: {msg}"),
            vec![format!("scenario after: {}", scenarios.last().cloned().unwrap_or_default())]));
    }
    *LAST.lock().unwrap() = Some(json!({
        "status": if out.status.success() { "completed" } else { "failing interleaving found" },
        "schedules": schedules, "scenarios": scenarios,
        "source": "/repo/src/ecs/auto_despawn.rs copied by loom-c10/build.rs with std::sync::Arc -> loom::sync::Arc",
    }));
    (Some(run), 0)
}
