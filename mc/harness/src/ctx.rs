//! Thread-local execution context: trace, chooser, name tables.

use crate::model::*;
use bevy::prelude::Entity;
use bevy_cobweb::prelude::RevokeToken;
use std::cell::RefCell;
use std::collections::HashMap;
use std::sync::Arc;

//-------------------------------------------------------------------------------------------------------------------

/// Replays a forced prefix of choices, then takes choice 0; records (choice, arity) at every point.
#[derive(Default, Debug)]
pub struct Chooser
{
    pub forced: Vec<u32>,
    pub record: Vec<(u32, u32)>,
    /// Set when a forced choice is out of range (nondeterminism the harness does not own).
    pub error: Option<String>,
}

impl Chooser
{
    pub fn new(forced: Vec<u32>) -> Self { Self{ forced, record: Vec::new(), error: None } }

    /// Chooses a value in `0..arity`. Arity 0 or 1 is not a choice point.
    pub fn choose(&mut self, arity: u32) -> u32
    {
        if arity <= 1 { return 0; }
        let pos = self.record.len();
        let c = if pos < self.forced.len() { self.forced[pos] } else { 0 };
        if c >= arity
        {
            if self.error.is_none()
            {
                self.error = Some(format!("forced choice {c} out of range (arity {arity}) at position {pos}"));
            }
            self.record.push((0, arity));
            return 0;
        }
        self.record.push((c, arity));
        c
    }
}

//-------------------------------------------------------------------------------------------------------------------

/// Where an alphabet is being asked for.
#[derive(Clone, Copy, Debug, PartialEq, Eq)]
pub enum Where { Top(u16), Script(RunId, u16) }

/// Dynamic information alphabets may depend on.
#[derive(Clone, Debug)]
pub struct DynInfo
{
    pub n_actors: usize,
    pub n_ents: usize,
    pub n_tokens: usize,
    pub used_actors: u32,
    pub used_ents: u8,
    pub budget_left: u32,
    pub at: Where,
    /// Total number of actor runs so far.
    pub runs_so_far: u32,
    /// Actors whose creating command has been applied (bit i). Ops may only name these: using an entity id
    /// reserved by `Commands::spawn` before the spawn command is applied is a Bevy usage error, not a cobweb one.
    pub actors_ready: u32,
    /// Tokens whose registering command has been applied.
    pub tokens_ready: u32,
}

impl DynInfo
{
    pub fn ready_actors(&self) -> Vec<ActorId> { (0..self.n_actors as ActorId).filter(|a| self.actors_ready & (1 << a) != 0).collect() }
    pub fn ready_tokens(&self) -> Vec<TokenId> { (0..self.n_tokens as TokenId).filter(|t| self.tokens_ready & (1 << t) != 0).collect() }
}

pub type AlphabetFn = Arc<dyn Fn(&DynInfo) -> Vec<Op> + Send + Sync>;

/// Universe + bounds of one exploration.
#[derive(Clone)]
pub struct Config
{
    pub name: String,
    /// Initial actors (system commands spawned at setup).
    pub actors: Vec<Variant>,
    pub n_ents: u8,
    /// `(child, parent)` hierarchy links among trigger entities.
    pub children: Vec<(EntId, EntId)>,
    /// Preset ops, each issued and flushed at top level before exploration starts.
    pub setup: Vec<Op>,
    /// Fixed top-level ops issued after setup (not chosen).
    pub fixed_top: Vec<Op>,
    /// Alphabet of chosen top-level ops (empty: none are chosen).
    pub top: AlphabetFn,
    /// Alphabet of script ops.
    pub script: AlphabetFn,
    /// Maximum number of chosen top-level ops.
    pub max_top: u32,
    /// Global budget of chosen ops (top + script).
    pub budget: u32,
    /// Maximum ops per actor run.
    pub max_per_run: u32,
    /// Classes of interchangeable actors / entities (restricted-growth symmetry breaking).
    pub sym_actors: Vec<Vec<ActorId>>,
    pub sym_ents: Vec<Vec<EntId>>,
    /// Hard cap on actor runs per execution (guards against runaway recursion in defective code).
    pub max_runs: u32,
    /// Run `App::update()` (the `Last` schedule polls) after each top-level op instead of only flushing.
    pub update_after_top: bool,
    /// Issue a final `Gc` + `Poll` at the end of every program.
    pub final_gc: bool,
    /// When non-empty, only verdicts of these properties (and machinery verdicts `*`) are kept for this configuration:
    /// the universe contains behaviour that the other rules of the monitor do not model.
    pub only_props: Vec<&'static str>,
    /// `App::add_reactor` calls (`app_reactors`) are made before `ReactPlugin` is added to the App.
    pub plugin_late: bool,
    /// A plain Bevy observer on `OnInsert` of `React<CA>`: whenever component A is inserted on entity 0 it inserts the
    /// same value on entity 1 through `ReactCommands::insert` (the observer's commands are applied between the insert and
    /// the command that schedules the insert's own reactions).
    pub mirror_observer: bool,
    /// Frame mode: chosen top-level operations are issued by plain Bevy systems of the App's `Update` schedule, up
    /// to `.0` systems per frame, `.1` = chained (a sync point between consecutive systems) or unordered (deferred
    /// commands applied together); `max_top` is then the number of frames and every frame is a full `App::update()`.
    pub frame: Option<(u32, bool)>,
    /// Fixed top-level operations issued after the chosen ones (the C11 probe tree); announced in the trace by a
    /// `probe-start` value event.
    pub final_ops: Vec<Op>,
    /// Scripts that are fixed by the configuration instead of chosen: (actor, run, ops). An actor that appears here
    /// has empty scripts for all its other runs.
    pub fixed_scripts: Vec<(ActorId, u16, Vec<Op>)>,
    /// Trigger entities prepared for auto-despawn at setup; the harness holds the only signal (`Op::DropSignal`).
    pub auto_ents: Vec<EntId>,
    /// `(actor, entity)`: the actor's closure captures a clone of the auto-despawn signal of that trigger entity (the
    /// entity is prepared for auto-despawn at setup); the clone is released when the actor's system state is dropped.
    pub actor_signals: Vec<(ActorId, EntId)>,
    /// Operations that have a `World`-level API (run, system event, broadcast, entity event, insertion, resource
    /// trigger / non-reacting access) are issued through it (from a plain closure command) instead of `Commands`.
    pub world_route: bool,
    /// Component accessors go through the `single*` convenience accessors whenever exactly one entity carries the
    /// component and it is the addressed one.
    pub single_route: bool,
    /// Reactors registered through `App::add_reactor(triggers, system)` when the app is built (persistent; all of the
    /// same closure type). Their actor ids follow those of `actors`.
    pub app_reactors: Vec<(Variant, Bundle)>,
    /// An `EntityWorldReactor` added with `App::add_entity_reactor`; its actor id follows `actors` and
    /// `app_reactors`. Entities are attached / detached with `Op::EwrAdd` / `Op::EwrRemove`.
    pub ewr: Option<Variant>,
}

impl Config
{
    pub fn ewr_actor(&self) -> Option<ActorId>
    {
        self.ewr.map(|_| (self.actors.len() + self.app_reactors.len()) as ActorId)
    }
}

pub fn no_ops() -> AlphabetFn { Arc::new(|_| Vec::new()) }

impl Config
{
    pub fn base(name: &str) -> Self
    {
        Config{
            name: name.to_string(),
            actors: vec![Variant::Plain, Variant::Plain],
            n_ents: 2,
            children: vec![],
            setup: vec![],
            fixed_top: vec![],
            top: no_ops(),
            script: no_ops(),
            max_top: 0,
            budget: 0,
            max_per_run: 3,
            sym_actors: vec![],
            sym_ents: vec![],
            max_runs: 64,
            update_after_top: false,
            final_gc: false,
            only_props: vec![],
            plugin_late: false,
            mirror_observer: false,
            auto_ents: vec![],
            actor_signals: vec![],
            world_route: false,
            single_route: false,
            app_reactors: vec![],
            ewr: None,
            frame: None,
            final_ops: vec![],
            fixed_scripts: vec![],
        }
    }
}

//-------------------------------------------------------------------------------------------------------------------

pub struct ActorRt
{
    pub entity: Entity,
    pub variant: Variant,
    pub runs: u16,
}

pub struct Ctx
{
    pub cfg: Arc<Config>,
    pub trace: Vec<TEv>,
    pub chooser: Chooser,
    pub names: HashMap<Entity, Name>,
    pub actors: Vec<ActorRt>,
    pub ents: Vec<Entity>,
    pub tokens: Vec<RevokeToken>,
    pub signals: Vec<Option<bevy_cobweb::prelude::AutoDespawnSignal>>,
    /// The only entity carrying the component about to be accessed, if there is exactly one.
    pub single_holder: Option<Entity>,
    pub next_payload: PayloadId,
    pub budget_left: u32,
    pub used_actors: u32,
    pub used_ents: u8,
    pub total_runs: u32,
    /// Number of system-state constructions seen so far (`StateProbe::from_world`).
    pub state_builds: u32,
    /// Materialised scripts, for replay artefacts.
    pub scripts: Vec<(RunId, Vec<Op>)>,
    pub tops: Vec<Op>,
    pub actors_ready: u32,
    pub tokens_ready: u32,
    /// Creations waiting for their marker: (cmd, new actor, token).
    pub pending_creations: Vec<(CmdId, Option<ActorId>, Option<TokenId>)>,
    /// Frame mode: operations the slot systems issue this frame, with their command index.
    pub slots: Vec<Option<(Op, u16)>>,
    /// Harness self-check failures (machinery errors, never verdicts).
    pub machinery_error: Option<String>,
}

thread_local!
{
    pub static CTX: RefCell<Option<Ctx>> = RefCell::new(None);
}

pub fn with_ctx<R>(f: impl FnOnce(&mut Ctx) -> R) -> R
{
    CTX.with(|c| {
        let mut guard = c.borrow_mut();
        let ctx = guard.as_mut().expect("harness context not installed");
        f(ctx)
    })
}

/// Like `with_ctx` but a no-op when no context is installed or it is already borrowed (used from `Drop` impls).
pub fn try_with_ctx(f: impl FnOnce(&mut Ctx))
{
    CTX.with(|c| {
        let Ok(mut guard) = c.try_borrow_mut() else { return };
        if let Some(ctx) = guard.as_mut() { f(ctx); }
    })
}

pub fn push(ev: TEv)
{
    try_with_ctx(|c| c.trace.push(ev));
}

impl Ctx
{
    pub fn new(cfg: Arc<Config>, forced: Vec<u32>) -> Self
    {
        let budget_left = cfg.budget;
        Ctx{
            cfg,
            trace: Vec::with_capacity(256),
            chooser: Chooser::new(forced),
            names: HashMap::new(),
            actors: Vec::new(),
            ents: Vec::new(),
            tokens: Vec::new(),
            signals: Vec::new(),
            single_holder: None,
            next_payload: 0,
            budget_left,
            used_actors: 0,
            used_ents: 0,
            total_runs: 0,
            state_builds: 0,
            scripts: Vec::new(),
            tops: Vec::new(),
            actors_ready: 0,
            tokens_ready: 0,
            pending_creations: Vec::new(),
            slots: Vec::new(),
            machinery_error: None,
        }
    }

    pub fn name_of(&self, e: Entity) -> Name
    {
        self.names.get(&e).copied().unwrap_or(Name::Other(e.index(), e.generation()))
    }

    pub fn info(&self, at: Where) -> DynInfo
    {
        DynInfo{
            n_actors: self.actors.len(),
            n_ents: self.ents.len(),
            n_tokens: self.tokens.len(),
            used_actors: self.used_actors,
            used_ents: self.used_ents,
            budget_left: self.budget_left,
            at,
            runs_so_far: self.total_runs,
            actors_ready: self.actors_ready,
            tokens_ready: self.tokens_ready,
        }
    }

    fn sym_ok_actor(&self, a: ActorId) -> bool
    {
        if self.used_actors & (1 << a) != 0 { return true; }
        for class in self.cfg.sym_actors.iter()
        {
            if !class.contains(&a) { continue; }
            // allowed iff `a` is the smallest unused member of its class
            for &m in class.iter()
            {
                if self.used_actors & (1 << m) != 0 { continue; }
                return m == a;
            }
        }
        true
    }

    fn sym_ok_ent(&self, used: u8, e: EntId) -> bool
    {
        if used & (1 << e) != 0 { return true; }
        for class in self.cfg.sym_ents.iter()
        {
            if !class.contains(&e) { continue; }
            for &m in class.iter()
            {
                if used & (1 << m) != 0 { continue; }
                return m == e;
            }
        }
        true
    }

    fn op_ents(op: &Op) -> Vec<EntId>
    {
        let mut v = Vec::new();
        if let Some(e) = op.entity() { v.push(e); }
        match op
        {
            Op::Register(_, b, _) | Op::RegisterNew(_, b, _) | Op::Once(_, b) =>
            {
                for t in b.iter() { if let Some(e) = t.entity() { v.push(e); } }
            }
            _ => {}
        }
        v
    }

    /// Applies restricted-growth symmetry breaking to an alphabet.
    pub fn sym_filter(&self, ops: Vec<Op>) -> Vec<Op>
    {
        if self.cfg.sym_actors.is_empty() && self.cfg.sym_ents.is_empty() { return ops; }
        ops.into_iter()
            .filter(|op| {
                if let Some(a) = op.actor() { if !self.sym_ok_actor(a) { return false; } }
                // every entity named must be used or the smallest unused of its class, in order of appearance
                let mut used = self.used_ents;
                for e in Self::op_ents(op)
                {
                    if !self.sym_ok_ent(used, e) { return false; }
                    used |= 1 << e;
                }
                true
            })
            .collect()
    }

    pub fn mark_used(&mut self, op: &Op)
    {
        if let Some(a) = op.actor() { self.used_actors |= 1 << a; }
        for e in Self::op_ents(op) { self.used_ents |= 1 << e; }
    }

    /// Chooses the next op from an alphabet (choice 0 = stop). Decrements the budget.
    pub fn choose_op(&mut self, alphabet: &AlphabetFn, at: Where) -> Option<Op>
    {
        if self.budget_left == 0 { return None; }
        let ops = (alphabet)(&self.info(at));
        let ops = self.sym_filter(ops);
        if ops.is_empty() { return None; }
        let c = self.chooser.choose(ops.len() as u32 + 1);
        if c == 0 { return None; }
        let op = ops[(c - 1) as usize];
        self.budget_left -= 1;
        self.mark_used(&op);
        Some(op)
    }

    pub fn fresh_payload(&mut self) -> PayloadId
    {
        let p = self.next_payload;
        self.next_payload += 1;
        p
    }
}
