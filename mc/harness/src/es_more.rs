//! Explicit-state checks C16 and C17: run + replay.

use crate::checks::Tier;
use crate::es::*;
use crate::es_checks::*;
use serde_json::json;
use std::time::Instant;

fn threads() -> usize { std::thread::available_parallelism().map(|n| n.get()).unwrap_or(4).min(16) }

pub fn run_c17(tier: Tier) -> i32
{
    use crate::c17::*;
    let t0 = Instant::now();
    let deadline = deadline_for(tier, t0);
    let (nesting, depth) = if tier == Tier::Quick { (2, 3) } else { (3, 5) };
    let en = enabled17(nesting);
    let stats = bfs::<Op17, Key17>(depth, Some(deadline), threads(), &en, &run17);
    if stats.states < 10 { eprintln!("machinery error: vacuous C17 search"); return 2; }
    let run = summarize("syscall-family", stats);
    finish("C17", tier, t0, vec![run], json!({"nesting_levels": nesting, "depth": depth}),
        "all sequences (to the stated depth) of calls through syscall(f|g), named_syscall(n0|n1, f|g), spawned_syscall(id0|id1|id2|missing) \
         with ordinary systems f, g and an exclusive system x (Local + Added<Marker> query state), \
         each optionally making a chain of nested calls from the commands it queues (same key again, other keys, a \
         running spawned system), against a reference map key -> counter: every call must run its system exactly \
         once with its input, see its own Local counter and its own change-detection cursor (number of markers added \
         since the key's previous run), return counter*1000+input, have applied its queued commands (and the nested calls they \
         make) before returning; missing / running spawned systems return Err and run nothing; deduplicated by the \
         counter map",
        vec![
            "recursive invocation of the same syscall / named_syscall key runs on fresh state that does not persist (documented warning); modelled as documented".into(),
            "nested calls are made from commands queued by the enclosing call (they execute before the enclosing call returns)".into(),
        ],
        "c17")
}

pub fn run_c16(tier: Tier) -> i32
{
    use crate::c16::*;
    let t0 = Instant::now();
    let deadline = deadline_for(tier, t0);
    let depth = if tier == Tier::Quick { 5 } else { 8 };
    let stats = bfs::<Op16, Key16>(depth, Some(deadline), threads(), &enabled16, &run16);
    if stats.states < 10 { eprintln!("machinery error: vacuous C16 search"); return 2; }
    let run = summarize("world-reactors", stats);
    finish("C16", tier, t0, vec![run], json!({"depth": depth}),
        "all histories (to the stated depth) of add / remove (each subset of an entity's triggers) / fire (mutation, entity \
         event, broadcast, resource) / despawn / manual run over one WorldReactor and two EntityWorldReactors (two \
         triggers each, so partial removal exists) and two entities, against a reference model: which runs happen, \
         the local data each run exposes (as last modified by earlier runs for that entity), presence of the local \
         data component on every entity at every step, the reactor systems never despawned or duplicated; \
         deduplicated by (model state, implementation observation)",
        vec![
            "adding an entity that is already tracked registers its triggers again (persistent registrations are not deduplicated by the library); the model counts registrations".into(),
        ],
        "c16")
}

pub fn replay(property: &str, kind: &str, hist: &[String], path: &str) -> i32
{
    match kind
    {
        "c17" =>
        {
            use crate::c17::*;
            let all = enabled17_all(3)(&[]);
            let mut h: Vec<Op17> = Vec::new();
            for s in hist
            {
                let Some(op) = all.iter().find(|o| format!("{:?}", o) == *s).cloned() else { eprintln!("cannot re-parse {s}"); return 2; };
                h.push(op);
                let r = run17(&h);
                println!("{s}");
                for (sig, d) in r.violations.iter() { println!("  {sig} :: {d}"); }
                if !r.violations.is_empty() { println!("VIOLATION property={property} replay={path}"); return 1; }
            }
            println!("no violation of {property} in this replay");
            0
        }
        "c16" =>
        {
            use crate::c16::*;
            let mut h: Vec<Op16> = Vec::new();
            for s in hist
            {
                let Some(op) = all_ops16().into_iter().find(|o| format!("{:?}", o) == *s) else { eprintln!("cannot re-parse {s}"); return 2; };
                h.push(op);
                let r = run16(&h);
                println!("{s}");
                for (sig, d) in r.violations.iter() { println!("  {sig} :: {d}"); }
                if !r.violations.is_empty() { println!("VIOLATION property={property} replay={path}"); return 1; }
            }
            println!("no violation of {property} in this replay");
            0
        }
        _ => { eprintln!("unknown replay kind {kind}"); 2 }
    }
}
