pub mod model;
pub mod ctx;
pub mod universe;
pub mod explore;
pub mod monitor;
pub mod judge;
pub mod checks;
pub mod runner;
