pub mod model;
pub mod ctx;
pub mod universe;
