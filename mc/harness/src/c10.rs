//! C10 (sequential leg): auto-despawn is an exact reference count.
//!
//! Explicit-state search over histories of prepare / clone / drop / garbage-collect / manual-despawn / reparent on
//! three entities with at most four live clones, real `AutoDespawner` + `garbage_collect_entities` in a real App,
//! against a reference model (a counter per entity).

use crate::es::*;
use bevy::prelude::*;
use bevy_cobweb::prelude::*;
use bevy_cobweb::verif as hooks;

pub const N_ENTS: usize = 3;
pub const MAX_CLONES: usize = 4;

#[derive(Clone, Copy, Debug, PartialEq, Eq, Hash)]
pub enum Op10
{
    Prepare(u8),
    Clone(u8),
    Drop(u8),
    /// Drop one clone while the thread is unwinding from a panic (the clone is owned by a closure that panics; the
    /// panic is caught).
    DropUnwinding(u8),
    Gc,
    ManualDespawn(u8),
    /// Make `.0` a child of `.1`.
    Reparent(u8, u8),
    /// `App::setup_auto_despawn()` called again (documented as safe to call from several plugins; the react plugin and
    /// the app-level registration helpers all call it). At most twice per history.
    Resetup,
    /// A burst: `.0` fresh entities are prepared and every signal is dropped again before the next collection; with
    /// `.1` the entities are despawned by hand first (stale entries). At most one burst per history.
    Burst(u16, bool),
    /// A cobweb system command is put on the world's own command queue and left there (`world.commands().queue(..)`
    /// without a flush): it runs at the next operation that flushes the world - possibly in the middle of a garbage
    /// collection (despawning flushes), where its runner starts a collection of its own. At most one pending at a time.
    QueueRun,
    /// One free clone of `.0`'s signal is moved into a component of entity `.1` (an ownership chain between
    /// auto-despawned entities: the clone is dropped when `.1` is despawned - possibly in the middle of a collection
    /// pass). At most one clone is held this way at a time.
    Give(u8, u8),
}

#[derive(Component)]
struct Holds(#[allow(dead_code)] Vec<AutoDespawnSignal>);

/// Burst sizes offered by `enabled` (set per tier).
pub static BURST_SIZES: std::sync::Mutex<Vec<u16>> = std::sync::Mutex::new(Vec::new());

#[derive(Clone, Debug, PartialEq, Eq, Hash, Default)]
pub struct Model10
{
    pub alive: [bool; N_ENTS],
    pub prepared: [bool; N_ENTS],
    pub clones: [u8; N_ENTS],
    /// The last clone was dropped: the entity must be despawned by the next garbage collection.
    pub doomed: [bool; N_ENTS],
    pub parent: [Option<u8>; N_ENTS],
    /// 0: no burst yet; 1: burst entities wait for the next collection; 2: collected.
    pub burst: u8,
    pub burst_size: u16,
    pub burst_stale: bool,
    pub resetups: u8,
    /// A system command waits on the world's command queue.
    pub queued: bool,
    /// (entity whose clone is held, owner entity).
    pub held: Option<(u8, u8)>,
    /// The last collection doomed an entity while it was running (a held clone dropped by a despawn of the pass).
    pub chain: bool,
}

impl Model10
{
    pub fn new() -> Self { Model10{ alive: [true; N_ENTS], ..Default::default() } }

    fn kill_recursive(&mut self, e: usize)
    {
        if !self.alive[e] { return; }
        self.alive[e] = false;
        self.release_held(e);
        for k in 0..N_ENTS { if self.parent[k] == Some(e as u8) { self.kill_recursive(k); } }
    }

    /// The owner `e` is gone: the clone it held is dropped.
    fn release_held(&mut self, e: usize)
    {
        if let Some((h, o)) = self.held
        {
            if o as usize == e
            {
                self.held = None;
                self.clones[h as usize] -= 1;
                if self.clones[h as usize] == 0 { self.doomed[h as usize] = true; }
            }
        }
    }

    fn free_clones(&self, e: usize) -> u8
    {
        self.clones[e] - if matches!(self.held, Some((h, _)) if h as usize == e) { 1 } else { 0 }
    }

    fn is_ancestor(&self, a: usize, of: usize) -> bool
    {
        let mut cur = self.parent[of];
        let mut guard = 0;
        while let Some(p) = cur
        {
            if p as usize == a { return true; }
            cur = self.parent[p as usize];
            guard += 1;
            if guard > N_ENTS { break; }
        }
        false
    }

    pub fn enabled(&self) -> Vec<Op10>
    {
        let mut v = Vec::new();
        let total: usize = self.clones.iter().map(|c| *c as usize).sum();
        for e in 0..N_ENTS as u8
        {
            let i = e as usize;
            // one signal per entity (two independent signals for one entity are not covered by the statement)
            if !self.prepared[i] && self.alive[i] && total < MAX_CLONES { v.push(Op10::Prepare(e)); }
            if self.free_clones(i) > 0 && total < MAX_CLONES { v.push(Op10::Clone(e)); }
            if self.free_clones(i) > 0 { v.push(Op10::Drop(e)); v.push(Op10::DropUnwinding(e)); }
            if self.free_clones(i) > 0 && self.held.is_none() && !self.queued
            {
                for o in 0..N_ENTS as u8 { if o != e && self.alive[o as usize] { v.push(Op10::Give(e, o)); } }
            }
            if self.alive[i] { v.push(Op10::ManualDespawn(e)); }
            for p in 0..N_ENTS as u8
            {
                if p == e { continue; }
                if self.alive[i] && self.alive[p as usize] && self.parent[i] != Some(p) && !self.is_ancestor(i, p as usize)
                {
                    v.push(Op10::Reparent(e, p));
                }
            }
        }
        v.push(Op10::Gc);
        if !self.queued { v.push(Op10::QueueRun); }
        if self.resetups < 1 { v.push(Op10::Resetup); }
        if self.burst == 0
        {
            for k in BURST_SIZES.lock().unwrap().iter() { v.push(Op10::Burst(*k, false)); v.push(Op10::Burst(*k, true)); }
        }
        v
    }

    /// What a complete collection does (also performed by the runner of a system command).
    fn collect(&mut self)
    {
        // the real pass drains its channel until it is empty: an entity doomed by a despawn of this pass goes in this pass
        self.chain = false;
        let mut round = 0;
        while self.doomed.iter().any(|d| *d)
        {
            if round > 0 { self.chain = true; }
            let now = self.doomed;
            for i in 0..N_ENTS
            {
                if now[i] { self.doomed[i] = false; self.kill_recursive(i); }
            }
            round += 1;
        }
        if self.burst == 1 { self.burst = 2; }
    }

    pub fn apply(&mut self, op: Op10)
    {
        // operations that flush the world's command queue before they take effect run the waiting system command first
        // (its runner collects garbage)
        if self.queued && matches!(op, Op10::ManualDespawn(_) | Op10::Burst(_, _))
        {
            self.queued = false;
            self.collect();
        }
        match op
        {
            Op10::QueueRun => { self.queued = true; }
            Op10::Give(e, o) => { self.held = Some((e, o)); }
            Op10::Prepare(e) => { self.prepared[e as usize] = true; self.clones[e as usize] = 1; }
            Op10::Clone(e) => { self.clones[e as usize] += 1; }
            Op10::Drop(e) | Op10::DropUnwinding(e) =>
            {
                let i = e as usize;
                self.clones[i] -= 1;
                if self.clones[i] == 0 { self.doomed[i] = true; }
            }
            Op10::Gc =>
            {
                // despawning a live entity flushes the world's queue: the waiting command runs inside the collection
                let despawns = (0..N_ENTS).any(|i| self.doomed[i] && self.alive[i]) || (self.burst == 1 && !self.burst_stale);
                if despawns { self.queued = false; }
                self.collect();
            }
            Op10::Burst(k, stale) => { self.burst = 1; self.burst_size = k; self.burst_stale = stale; }
            Op10::Resetup => { self.resetups += 1; }
            Op10::ManualDespawn(e) =>
            {
                // plain (non-recursive) despawn: children stay, without a parent
                let i = e as usize;
                if self.alive[i] { self.alive[i] = false; self.release_held(i); }
                for k in 0..N_ENTS { if self.parent[k] == Some(e) { self.parent[k] = None; } }
                self.parent[i] = None;
            }
            Op10::Reparent(e, p) =>
            {
                // (a hierarchy edit through `EntityWorldMut` does not flush the world's command queue)
                self.parent[e as usize] = Some(p);
            }
        }
    }
}

#[derive(Clone, Debug, PartialEq, Eq, Hash)]
pub struct Key10
{
    model: Model10,
    observed_alive: [bool; N_ENTS],
    pending: usize,
}

/// Executes a history on the real code in lock-step with the model.
pub fn run10(hist: &[Op10]) -> StepResult<Key10>
{
    let mut app = App::new();
    app.add_plugins(ReactPlugin);
    let ents: Vec<Entity> = (0..N_ENTS).map(|_| app.world_mut().spawn_empty().id()).collect();
    let idle_sys = app.world_mut().spawn_system_command(|| {});
    let mut model = Model10::new();
    let mut signals: Vec<Vec<AutoDespawnSignal>> = (0..N_ENTS).map(|_| Vec::new()).collect();
    let mut burst_ents: Vec<Entity> = Vec::new();
    let mut violations: Vec<(String, String)> = Vec::new();
    let mut stop = false;

    for (k, op) in hist.iter().enumerate()
    {
        let last = k + 1 == hist.len();
        if *op == Op10::Resetup { app.setup_auto_despawn(); }
        let world = app.world_mut();
        match *op
        {
            Op10::Resetup => {}
            Op10::QueueRun => { world.commands().queue(idle_sys); }
            Op10::Give(e, o) =>
            {
                let s = signals[e as usize].pop().expect("free clone");
                world.entity_mut(ents[o as usize]).insert(Holds(vec![s]));
            }
            Op10::Prepare(e) =>
            {
                let s = world.resource::<AutoDespawner>().prepare(ents[e as usize]);
                signals[e as usize].push(s);
            }
            Op10::Clone(e) => { let c = signals[e as usize][0].clone(); signals[e as usize].push(c); }
            Op10::Drop(e) => { signals[e as usize].pop(); }
            Op10::DropUnwinding(e) =>
            {
                let sig = signals[e as usize].pop();
                let r = std::panic::catch_unwind(std::panic::AssertUnwindSafe(move || { let _owned = sig; panic!("harness: unwinding drop"); }));
                assert!(r.is_err());
            }
            Op10::Gc => { garbage_collect_entities(world); }
            Op10::ManualDespawn(e) => { world.despawn(ents[e as usize]); }
            Op10::Reparent(e, p) => { world.entity_mut(ents[p as usize]).add_child(ents[e as usize]); }
            Op10::Burst(k, stale) =>
            {
                let mut sigs = Vec::new();
                for _ in 0..k
                {
                    let e = world.spawn_empty().id();
                    sigs.push(world.resource::<AutoDespawner>().prepare(e));
                    burst_ents.push(e);
                }
                if stale { for e in burst_ents.iter() { world.despawn(*e); } }
                // a second clone of each, dropped in the opposite order
                let clones: Vec<AutoDespawnSignal> = sigs.iter().rev().cloned().collect();
                drop(sigs);
                drop(clones);
            }
        }
        model.apply(*op);
        if last
        {
            let world = app.world_mut();
            // An entity doomed *during* a pass must be gone after the first collection that starts afterwards: the
            // real pass takes it at once, the statement also allows the next one, so chains are judged after a second pass.
            let chained = *op == Op10::Gc && model.chain;
            if chained { garbage_collect_entities(world); }
            for i in 0..N_ENTS
            {
                let obs = world.get_entity(ents[i]).is_ok();
                if obs != model.alive[i]
                {
                    let sig = if model.alive[i] { "despawned-while-clone-exists-or-never-doomed" } else { "not-despawned-by-gc" };
                    violations.push((format!("{sig}:{:?}", std::mem::discriminant(op)),
                        format!("after {:?}: entity {i} exists={obs}, reference model says exists={} (clones {:?}, doomed {:?}, parents {:?})",
                            op, model.alive[i], model.clones, model.doomed, model.parent)));
                    stop = true;
                }
            }
            let burst_alive = burst_ents.iter().filter(|e| world.get_entity(**e).is_ok()).count();
            let burst_expected = if model.burst == 1 && !model.burst_stale { model.burst_size as usize } else { 0 };
            if burst_alive != burst_expected
            {
                let sig = if burst_alive > burst_expected { "burst-not-despawned-by-gc" } else { "burst-despawned-early" };
                violations.push((sig.into(), format!("after {:?}: {burst_alive} of the {} burst entities exist, reference model expects {burst_expected}",
                    op, model.burst_size)));
                stop = true;
            }
            // idempotence: a second collection changes nothing
            if *op == Op10::Gc
            {
                let before: Vec<bool> = (0..N_ENTS).map(|i| world.get_entity(ents[i]).is_ok()).collect();
                garbage_collect_entities(world);
                let after: Vec<bool> = (0..N_ENTS).map(|i| world.get_entity(ents[i]).is_ok()).collect();
                if before != after
                {
                    violations.push(("gc-not-idempotent".into(), format!("second garbage collection changed liveness {:?} -> {:?}", before, after)));
                    stop = true;
                }
            }
        }
    }
    let world = app.world_mut();
    let observed_alive = { let mut a = [false; N_ENTS]; for i in 0..N_ENTS { a[i] = world.get_entity(ents[i]).is_ok(); } a };
    let pending = hooks::snapshot(world).auto_despawn_pending;
    let expected_pending = model.doomed.iter().filter(|d| **d).count() + if model.burst == 1 { model.burst_size as usize } else { 0 };
    if pending != expected_pending && !hist.is_empty()
    {
        violations.push(("signal-count".into(),
            format!("after {:?}: {pending} despawn signals pending, reference model expects {expected_pending} (a signal must be sent exactly when the last clone drops)", hist.last())));
        stop = true;
    }
    drop(signals);
    StepResult{ key: Key10{ model, observed_alive, pending }, violations, stop }
}

pub fn enabled10(hist: &[Op10]) -> Vec<Op10>
{
    let mut m = Model10::new();
    for op in hist { m.apply(*op); }
    m.enabled()
}
