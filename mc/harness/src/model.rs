//! Plain data types shared by the harness, the explorer and the spec monitor.
//!
//! Nothing in here touches Bevy or bevy_cobweb.

use serde::{Deserialize, Serialize};

pub type ActorId = u8;
pub type EntId = u8;
pub type PayloadId = u32;
pub type TokenId = u8;

/// Reactive component types of the universe.
#[derive(Clone, Copy, Debug, PartialEq, Eq, Hash, PartialOrd, Ord, Serialize, Deserialize)]
pub enum Comp { A, B }

/// Event types (used for broadcasts and entity events alike, so the same key is shared by two tables).
#[derive(Clone, Copy, Debug, PartialEq, Eq, Hash, PartialOrd, Ord, Serialize, Deserialize)]
pub enum Ev { A, B }

/// Reactor modes, mirror of `ReactorMode`.
#[derive(Clone, Copy, Debug, PartialEq, Eq, Hash, PartialOrd, Ord, Serialize, Deserialize)]
pub enum Mode { Persistent, Cleanup, Revokable }

/// Actor body variants.
#[derive(Clone, Copy, Debug, PartialEq, Eq, Hash, PartialOrd, Ord, Serialize, Deserialize)]
pub enum Variant
{
    /// Ordinary system with `Commands`.
    Plain,
    /// Exclusive system (`&mut World`), commands through `world.commands()`.
    Exclusive,
    /// Ordinary system returning `Err` after queuing its commands.
    Erring,
    /// Ordinary system that never takes its system event (payload stays in the data entity).
    NoTake,
    /// Exclusive system whose body flushes the world's command queue (`World::flush`, as any `World::syscall`,
    /// `World::react`, `World::broadcast` ... would) before it reads its event.
    ExclusiveFlush,
    /// Ordinary system queuing through `DeferredWorld::commands()` (the world's own command queue). Used only by
    /// series that judge reader visibility (C04): when such commands run relative to the runner's bookkeeping is not
    /// covered by the statements (DESIGN section 9).
    Deferred,
}

/// One reaction trigger.
#[derive(Clone, Copy, Debug, PartialEq, Eq, Hash, PartialOrd, Ord, Serialize, Deserialize)]
pub enum Trig
{
    Broadcast(Ev),
    EntityEvent(Ev, EntId),
    AnyEntityEvent(Ev),
    ResMut,
    Insertion(Comp),
    Mutation(Comp),
    Removal(Comp),
    EntityInsertion(Comp, EntId),
    EntityMutation(Comp, EntId),
    EntityRemoval(Comp, EntId),
    Despawn(EntId),
}

impl Trig
{
    pub fn entity(&self) -> Option<EntId>
    {
        match *self
        {
            Trig::EntityEvent(_, e) | Trig::EntityInsertion(_, e) | Trig::EntityMutation(_, e) |
            Trig::EntityRemoval(_, e) | Trig::Despawn(e) => Some(e),
            _ => None,
        }
    }
}

/// A bundle of up to three triggers.
#[derive(Clone, Copy, Debug, PartialEq, Eq, Hash, PartialOrd, Ord, Serialize, Deserialize)]
pub struct Bundle
{
    pub n: u8,
    pub t: [Trig; 3],
}

impl Bundle
{
    pub const EMPTY: Bundle = Bundle{ n: 0, t: [Trig::ResMut; 3] };
    pub fn one(a: Trig) -> Self { Bundle{ n: 1, t: [a, Trig::ResMut, Trig::ResMut] } }
    pub fn two(a: Trig, b: Trig) -> Self { Bundle{ n: 2, t: [a, b, Trig::ResMut] } }
    pub fn three(a: Trig, b: Trig, c: Trig) -> Self { Bundle{ n: 3, t: [a, b, c] } }
    pub fn iter(&self) -> impl Iterator<Item = Trig> + '_ { self.t[..self.n as usize].iter().copied() }
}

/// How a reactive component is mutated.
#[derive(Clone, Copy, Debug, PartialEq, Eq, Hash, PartialOrd, Ord, Serialize, Deserialize)]
pub enum How
{
    /// `ReactiveMut::get_mut` (always triggers if the component exists).
    GetMut,
    /// `ReactiveMut::set_if_neq(value)`.
    SetIfNeq(u8),
    /// `ReactiveMut::get_noreact` then write value (never triggers).
    NoReact(u8),
    /// `React::<C>::trigger_mutation(entity, world)` (triggers unconditionally).
    Trigger,
    /// Read-only access through `Reactive` / `ReactiveMut::get` (never triggers).
    Read,
}

/// Operations. Issued by the driver at top level or by actor bodies through their `Commands`.
#[derive(Clone, Copy, Debug, PartialEq, Eq, Hash, PartialOrd, Ord, Serialize, Deserialize)]
pub enum Op
{
    /// Queue the actor's system command.
    Run(ActorId),
    /// Send a system event with a fresh payload.
    SysEvent(ActorId),
    Broadcast(Ev),
    EntityEvent(Ev, EntId),
    /// `ReactCommands::insert` of a component with the given value.
    Insert(Comp, EntId, u8),
    Mutate(Comp, EntId, How),
    /// Body-time access to component A through the issuing system's own `ReactiveMut` param: the accessor is called
    /// while the body runs (the value changes then), its trigger command is applied later with the body's commands.
    MutateNow(EntId, How),
    /// Reactive resource access.
    ResMutate(How),
    RemoveComp(Comp, EntId),
    /// `EntityCommands::clear`-like: remove every component from the entity.
    Clear(EntId),
    Despawn(EntId),
    DespawnRecursive(EntId),
    /// Despawn an actor's system entity.
    DespawnSys(ActorId),
    /// `clear()` an actor's system entity: the entity stays, its system (the storage component) is gone.
    StripSys(ActorId),
    /// Insert an unrelated plain component on an actor's system entity (the entity moves to another archetype; the
    /// system is untouched).
    TagSys(ActorId),
    /// Add triggers to an existing actor.
    Register(ActorId, Bundle, Mode),
    /// Spawn a new actor and register it (`on` / `on_persistent` / `on_revokable` shape).
    RegisterNew(Variant, Bundle, Mode),
    /// `ReactCommands::once` with a new actor.
    Once(Variant, Bundle),
    Revoke(TokenId),
    /// `garbage_collect_entities`.
    Gc,
    /// `schedule_removal_and_despawn_reactors`.
    Poll,
    /// A plain Bevy command that does nothing (besides its marker).
    Nop,
    /// Drop the harness-held auto-despawn signal of a trigger entity (prepared at setup, see `Config::auto_ents`).
    DropSignal(EntId),
    /// `EntityCommands::add_world_reactor::<HarnessEwr>(data)`: registers the entity world reactor's two triggers
    /// (entity event A, entity mutation A) on the entity (see `Config::ewr`).
    EwrAdd(EntId),
    /// `EntityReactor::<HarnessEwr>::remove` of the entity's first (0), second (1) or both (2) triggers.
    EwrRemove(EntId, u8),
}

impl Op
{
    pub fn actor(&self) -> Option<ActorId>
    {
        match *self
        {
            Op::Run(a) | Op::SysEvent(a) | Op::DespawnSys(a) | Op::StripSys(a) | Op::TagSys(a) | Op::Register(a, _, _) => Some(a),
            _ => None,
        }
    }

    pub fn entity(&self) -> Option<EntId>
    {
        match *self
        {
            Op::EntityEvent(_, e) | Op::Insert(_, e, _) | Op::Mutate(_, e, _) | Op::MutateNow(e, _) | Op::RemoveComp(_, e) |
            Op::Clear(e) | Op::Despawn(e) | Op::DespawnRecursive(e) | Op::DropSignal(e) | Op::EwrAdd(e) | Op::EwrRemove(e, _) => Some(e),
            _ => None,
        }
    }
}

/// Identifies one run of an actor: (actor, zero-based run number of that actor).
#[derive(Clone, Copy, Debug, PartialEq, Eq, Hash, PartialOrd, Ord, Serialize, Deserialize)]
pub struct RunId
{
    pub actor: ActorId,
    pub run: u16,
}

/// Who issued a command.
#[derive(Clone, Copy, Debug, PartialEq, Eq, Hash, PartialOrd, Ord, Serialize, Deserialize)]
pub enum Issuer
{
    /// Setup phase (preset), index.
    Setup,
    /// Driver at top level.
    Top,
    /// An actor run.
    Run(RunId),
}

/// Identifies one issued command: issuer plus its index within the issuer's sequence.
#[derive(Clone, Copy, Debug, PartialEq, Eq, Hash, PartialOrd, Ord, Serialize, Deserialize)]
pub struct CmdId
{
    pub by: Issuer,
    pub idx: u16,
}

/// Names the harness gives to entities it knows about.
#[derive(Clone, Copy, Debug, PartialEq, Eq, Hash, PartialOrd, Ord, Serialize, Deserialize)]
pub enum Name
{
    Actor(ActorId),
    Ent(EntId),
    /// Unknown entity: index + generation.
    Other(u32, u32),
}

/// What the reader params of an actor returned at the start of a run.
#[derive(Clone, Debug, Default, PartialEq, Eq, Hash, Serialize, Deserialize)]
pub struct Readers
{
    /// `SystemEvent::take` (None if the actor variant does not take, or nothing to take).
    pub sys: Option<PayloadId>,
    /// A second `take` in the same body returned something (must never happen).
    pub sys_twice: bool,
    pub bcast: [Option<PayloadId>; 2],
    pub ent_ev: [Option<(Name, PayloadId)>; 2],
    pub ins: [Option<Name>; 2],
    pub mutn: [Option<Name>; 2],
    pub rem: [Option<Name>; 2],
    pub despawn: Option<Name>,
}

impl Readers
{
    pub fn is_empty(&self) -> bool { *self == Readers::default() }
}

/// Liveness and component sample taken by marker commands.
#[derive(Clone, Debug, Default, PartialEq, Eq, Hash, Serialize, Deserialize)]
pub struct Live
{
    /// Bit i set iff actor i's system entity exists.
    pub actors: u32,
    /// Bit i set iff trigger entity i exists.
    pub ents: u8,
    /// Component values per entity: [ent][comp], -1 when absent.
    pub comps: Vec<[i8; 2]>,
    /// Reactive resource value.
    pub res: u8,
}

/// Runner decisions, mirror of `VerifRunnerDecision`.
#[derive(Clone, Copy, Debug, PartialEq, Eq, Hash, Serialize, Deserialize)]
pub enum Decision { Run, Postponed, AbortDead, AbortNoComponent, AbortRootMissing }

/// Kinds of cobweb commands, mirror of `VerifCommandKind`.
#[derive(Clone, Copy, Debug, PartialEq, Eq, Hash, PartialOrd, Ord, Serialize, Deserialize)]
pub enum Kind
{
    Manual,
    SysEvent,
    Resource,
    Insertion(Comp),
    Mutation(Comp),
    Removal(Comp),
    Despawn,
    EntityEvent,
    Broadcast,
    /// A component type outside the universe.
    Unknown,
}

/// Hook events translated to harness names.
#[derive(Clone, Debug, PartialEq, Eq, Hash, Serialize, Deserialize)]
pub enum Hook
{
    CommandApply{ kind: Kind, target: Name, source: Option<Name>, data: Option<Name> },
    /// Garbage collection of auto-despawned entities starts.
    Gc,
    /// A polled reaction was detected and queued.
    Scheduled{ kind: Kind, target: Name, source: Name },
    RunnerEnter{ target: Name, counter: u32 },
    RunnerDecision{ target: Name, decision: Decision },
    RunnerBodyDone{ target: Name },
    RunnerReinsert{ target: Name, reinserted: bool },
    RunnerReplay{ parent: Name, target: Name },
    RunnerDiscard{ target: Name },
    RunnerExit{ target: Name, counter: u32 },
}

/// Normalised snapshot of the framework's bookkeeping at a quiescent point.
#[derive(Clone, Debug, Default, PartialEq, Eq, Hash, Serialize, Deserialize)]
pub struct Snap
{
    pub counter: u32,
    pub buffered: u32,
    /// prepared lengths: system event, entity reaction, event, despawn
    pub prepared: [u32; 4],
    /// reacting flags in the same order
    pub reacting: [bool; 4],
    pub despawn_handle_held: bool,
    pub cache_scratch: u32,
    /// Registration tables, sorted by key: (kind, type, entity, reactors in list order with refcounted flag).
    pub tables: Vec<(String, Option<String>, Option<Name>, Vec<(Name, bool)>)>,
    pub removal_checkers: u32,
    /// System command entities and whether the callback is present.
    pub syscommands: Vec<(Name, bool)>,
    pub data_entities: u32,
    pub sys_event_data: u32,
    pub auto_despawn_pending: u32,
    pub despawn_tracker_pending: u32,
    pub entity_count: u32,
    /// World command queue is empty.
    pub world_queue_empty: bool,
}

/// Issued form of an op: the op plus the ids it allocated.
#[derive(Clone, Debug, PartialEq, Eq, Hash, Serialize, Deserialize)]
pub struct Issued
{
    pub op: Op,
    pub payload: Option<PayloadId>,
    pub new_actor: Option<ActorId>,
    pub token: Option<TokenId>,
    /// For ops that check the target at issue time (`ReactCommands::insert`, `despawn` trigger): whether the
    /// entity existed then. For body-time accessors: whether the accessor call triggered.
    pub issue_ok: bool,
    /// Value returned by a body-time accessor (`set_if_neq`: the old value, -1 for `None`), if any.
    pub value: Option<i16>,
}

/// Trace events.
#[derive(Clone, Debug, PartialEq, Eq, Hash, Serialize, Deserialize)]
pub enum TEv
{
    /// The driver is about to issue (and flush) a top-level op.
    Top{ cmd: CmdId, issued: Issued },
    /// An actor body issues an op.
    Issue{ cmd: CmdId, issued: Issued },
    /// Marker command queued immediately before the op's own command(s) has been applied.
    Applied{ cmd: CmdId, live: Live },
    RunEnter{ id: RunId, local_ctr: u32, closure_ctr: u32, variant: Variant, readers: Readers },
    BodyExit{ id: RunId },
    /// Marker queued last by a body has been applied.
    DeferredEnd{ id: RunId, live: Live },
    Hook(Hook),
    Drop(PayloadId),
    CanaryDrop(ActorId),
    /// Driver, after the flush of a top-level op returned.
    Quiescent{ snap: Snap, live: Live },
    /// A value returned by a direct call (syscall family, accessors).
    Value{ what: String, value: i64 },
    Panic(String),
}
