//! Checks built on the explicit-state engine (C10, C16, C17): run, classify, write evidence.

use crate::checks::Tier;
use crate::es::*;
use crate::explore::Violation;
use crate::runner::{classify, load_findings, out_dir};

use serde_json::{json, Value};
use std::time::{Duration, Instant};

#[derive(Clone)]
pub struct EsRun
{
    pub label: String,
    pub depth: usize,
    pub states: usize,
    pub transitions: u64,
    pub fixpoint: bool,
    pub capped: bool,
    pub states_per_depth: Vec<usize>,
    pub samples: Vec<Value>,
    /// (signature, detail, history rendered)
    pub violations: Vec<(String, String, Vec<String>)>,
}

pub fn summarize<O: std::fmt::Debug + Clone>(label: &str, s: EsStats<O>) -> EsRun
{
    EsRun{
        label: label.to_string(),
        depth: s.max_depth,
        states: s.states,
        transitions: s.transitions,
        fixpoint: s.fixpoint,
        capped: s.capped,
        states_per_depth: s.states_per_depth,
        samples: s.samples.iter().map(|h| json!(h.iter().map(|o| format!("{:?}", o)).collect::<Vec<_>>())).collect(),
        violations: s.violations.iter()
            .map(|v| (v.signature.clone(), v.detail.clone(), v.history.iter().map(|o| format!("{:?}", o)).collect()))
            .collect(),
    }
}

fn env_u64(name: &str) -> Option<u64> { std::env::var(name).ok().and_then(|s| s.parse().ok()) }

pub fn deadline_for(tier: Tier, t0: Instant) -> Instant
{
    let cap_s = match tier
    {
        Tier::Quick => env_u64("VERIF_QUICK_CAP_S").unwrap_or(45),
        Tier::Thorough => env_u64("VERIF_THOROUGH_CAP_S").unwrap_or(600),
    };
    t0 + Duration::from_secs(cap_s)
}

/// Classifies violations, writes replay artefacts and the evidence file. Returns the exit code.
pub fn finish(
    property: &str,
    tier: Tier,
    t0: Instant,
    runs: Vec<EsRun>,
    extra: Value,
    rule: &str,
    assumptions: Vec<String>,
    replay_kind: &str,
) -> i32
{
    let findings = match load_findings() { Ok(f) => f, Err(e) => { eprintln!("machinery error: {e}"); return 2; } };
    let seed = env_u64("VERIF_SEED").unwrap_or(0);
    let mut exit = 0;
    let mut unknown = 0;
    let mut known_lines: Vec<String> = Vec::new();
    for r in runs.iter()
    {
        for (sig, detail, hist) in r.violations.iter()
        {
            let v = Violation{ property: property.to_string(), rule: "reference-model".into(), detail: detail.clone(), signature: sig.clone() };
            if let Some(k) = classify(&findings, &v)
            {
                let line = format!("KNOWN-FINDING: property={property} {} ({}; e.g. {})", k.id, k.description, detail.chars().take(200).collect::<String>());
                if !known_lines.contains(&line) { known_lines.push(line); }
                continue;
            }
            let dir = format!("{}/replays", out_dir());
            let _ = std::fs::create_dir_all(&dir);
            let fsig: String = sig.chars().map(|c| if c.is_ascii_alphanumeric() { c } else { '_' }).take(60).collect();
            let path = format!("{dir}/{property}-{fsig}.json");
            let doc = json!({
                "property": property, "kind": if r.label == "loom" { "c10-loom" } else { replay_kind }, "engine": r.label, "signature": sig, "detail": detail,
                "history": hist, "replay_cmd": format!("./check {property} --replay {path}"),
            });
            let _ = std::fs::write(&path, serde_json::to_string_pretty(&doc).unwrap());
            println!("VIOLATION property={property} replay={path}");
            println!("  signature={sig} :: {}", detail.chars().take(400).collect::<String>());
            exit = 1;
            unknown += 1;
        }
    }
    for l in known_lines { println!("{l}"); }

    let states: usize = runs.iter().map(|r| r.states).sum();
    let transitions: u64 = runs.iter().map(|r| r.transitions).sum();
    let exhaustive = runs.iter().all(|r| !r.capped);
    let mut samples: Vec<Value> = Vec::new();
    for r in runs.iter() { for s in r.samples.iter().take(3) { samples.push(json!({"engine": r.label, "history": s})); } }
    if samples.is_empty() { samples.push(json!({"history": []})); }
    let coverage = json!({
        "states": states.max(1),
        "transitions": transitions.max(1),
        "traces_validated_against_impl": transitions,
        "evaluations": transitions,
        "distinct_nontrivial": states,
        "rule": rule,
        "samples": samples,
        "exhaustive": exhaustive,
        "searches": runs.iter().map(|r| json!({
            "engine": r.label, "depth_completed": r.depth, "states": r.states, "transitions": r.transitions,
            "fixed_point_reached": r.fixpoint, "cap_hit": r.capped, "new_states_per_depth": r.states_per_depth,
        })).collect::<Vec<_>>(),
        "extra": extra,
        "explanation": "explicit-state breadth-first search over operation histories; every transition re-executes the \
            history on the real crate in a fresh App in lock-step with a reference model; states are deduplicated by \
            (model state, implementation observation)",
    });
    let evidence = json!({
        "property_id": property,
        "tier": if tier == Tier::Quick { "quick" } else { "thorough" },
        "seed": seed,
        "level": "model_checking",
        "coverage": coverage,
        "assumptions": assumptions,
        "wall_s": t0.elapsed().as_secs_f64(),
        "violations": unknown,
    });
    let _ = std::fs::create_dir_all(format!("{}/evidence", out_dir()));
    let path = format!("{}/evidence/{property}.json", out_dir());
    if let Err(e) = std::fs::write(&path, serde_json::to_string_pretty(&evidence).unwrap())
    {
        eprintln!("machinery error: cannot write {path}: {e}");
        return 2;
    }
    println!("{property}: {states} states, {transitions} transitions, exhaustive={exhaustive} ({:.1}s)", t0.elapsed().as_secs_f64());
    exit
}

//-------------------------------------------------------------------------------------------------------------------
// C10

pub fn run_c10(tier: Tier) -> i32
{
    use crate::c10::*;
    let t0 = Instant::now();
    let deadline = deadline_for(tier, t0);
    *BURST_SIZES.lock().unwrap() = if tier == Tier::Quick { vec![300] } else { vec![300, 3000] };
    let depth = 40; // the reachable state set is finite: the search runs to its fixed point (depth 12 on the pinned tree)
    let threads = std::thread::available_parallelism().map(|n| n.get()).unwrap_or(4).min(16);
    let stats = bfs::<Op10, Key10>(depth, Some(deadline), threads, &enabled10, &run10);
    let vacuous = stats.states < 10;
    let seq = summarize("sequential", stats);
    if vacuous { eprintln!("machinery error: vacuous C10 search"); return 2; }

    // concurrent leg (loom), in a child process
    let (loom, loom_exit) = crate::loom_leg::run(tier);
    let mut runs = vec![seq];
    if let Some(mut l) = loom.clone()
    {
        // loom schedules are counted as transitions of the concurrent leg
        l.label = "loom".into();
        runs.push(l);
    }
    if loom_exit == 2 { return 2; }
    finish("C10", tier, t0, runs,
        json!({"loom": crate::loom_leg::describe()}),
        "sequential: all histories of prepare / clone / drop / gc / manual despawn / reparent / give-clone-to-a-component-of-another-entity over 3 entities and <= 4 live \
         clones, plus at most one burst (300 [thorough: or 3000] fresh entities prepared, optionally despawned by hand, \
         two clones each dropped before the next collection) to the stated depth, deduplicated by (reference-model state, observed liveness, pending signals); \
         concurrent: all interleavings (loom, real src/ecs/auto_despawn.rs) of clone drops on two worker threads with \
         garbage collection on the main thread; non-trivial/distinct = distinct canonical states",
        vec![
            "one signal per entity; descendants of a collected entity go with it even if they hold their own clones".into(),
            "loom leg: std::sync::Arc semantics as modelled by loom; crossbeam channel replaced by a linearizable FIFO built on loom primitives".into(),
        ],
        "c10")
}

pub fn replay_es(property: &str, path: &str) -> i32
{
    let text = match std::fs::read_to_string(path) { Ok(t) => t, Err(e) => { eprintln!("{e}"); return 2; } };
    let v: Value = match serde_json::from_str(&text) { Ok(v) => v, Err(e) => { eprintln!("{e}"); return 2; } };
    let hist: Vec<String> = v["history"].as_array().cloned().unwrap_or_default().iter().filter_map(|x| x.as_str().map(|s| s.to_string())).collect();
    match v["kind"].as_str().unwrap_or("")
    {
        "c10" =>
        {
            use crate::c10::*;
            *BURST_SIZES.lock().unwrap() = vec![300, 3000];
            // re-parse the history by enumerating enabled ops and matching their rendering
            let mut h: Vec<Op10> = Vec::new();
            for s in hist.iter()
            {
                let Some(op) = enabled10(&h).into_iter().find(|o| format!("{:?}", o) == *s) else { eprintln!("cannot re-parse {s}"); return 2; };
                h.push(op);
                let r = run10(&h);
                println!("{:?} -> alive {:?}", op, r.key);
                for (sig, d) in r.violations.iter() { println!("  {sig} :: {d}"); }
                if !r.violations.is_empty() { println!("VIOLATION property={property} replay={path}"); return 1; }
            }
            println!("no violation of {property} in this replay");
            0
        }
        "c10-loom" =>
        {
            let (run, code) = crate::loom_leg::run(Tier::Thorough);
            if code != 0 { return code; }
            match run
            {
                Some(r) if !r.violations.is_empty() =>
                {
                    for (sig, d, _) in r.violations.iter() { println!("  {sig} :: {d}"); }
                    println!("VIOLATION property={property} replay={path}");
                    1
                }
                _ => { println!("no violation of {property} in this replay"); 0 }
            }
        }
        other => crate::es_more::replay(property, other, &hist, path),
    }
}
