//! The spec monitor: an executable statement of the properties.
//!
//! It replays the observation trace of one execution against an abstract state written from the property
//! statements (registration table, liveness, component values, reference counts, pending obligations, frame stack)
//! and reports every rule the trace breaks. It never looks at the implementation's own bookkeeping except to
//! cross-check it at quiescent points.

use crate::ctx::Config;
use crate::explore::Violation;
use crate::model::*;

use std::collections::hash_map::DefaultHasher;
use std::collections::HashMap;
use std::hash::{Hash, Hasher};

//-------------------------------------------------------------------------------------------------------------------

#[derive(Clone, Copy, Debug, PartialEq, Eq, Hash, PartialOrd, Ord)]
enum OState
{
    /// Exists in the abstract state, the implementation has not shown the command yet.
    Created,
    /// A polled reaction has been detected and queued by the implementation (not applied yet).
    Scheduled,
    /// The implementation applied the command (CommandApply seen), no decision yet.
    Reached,
    /// Buffered because the target was executing.
    Postponed,
    /// Target body is executing.
    Running,
    /// Body has exited, deferred commands still running.
    Exited,
    /// Run completed (DeferredEnd seen).
    Done,
    /// Discharged without a run (target dead / discarded).
    Aborted,
    /// Cancelled before being scheduled (revoked between event and poll).
    Cancelled,
}

#[derive(Clone, Debug)]
struct Obl
{
    actor: ActorId,
    kind: Kind,
    source: Option<Name>,
    payload: Option<PayloadId>,
    creator: CmdId,
    created_at: usize,
    polled: bool,
    state: OState,
    /// Target was abstractly dead when the obligation arose: the implementation may or may not show it.
    optional: bool,
    /// Ref-counted group kept alive by this (pending despawn reaction).
    holds_group: Option<usize>,
    /// Order among obligations created by the same command (for FIFO of one sender).
    seq: usize,
    /// The frame (run) that was busy when this obligation was postponed.
    postponed_on: Option<RunId>,
    run: Option<RunId>,
    /// Trace positions of the postponement and of the start of the discharging run (mark re-assignment among
    /// interchangeable deliveries, see `check_boundary`).
    postponed_at: usize,
    run_at: usize,
    /// The window rule (C09) has been reported for this postponed delivery; it stays postponed so that what happens to
    /// it later (replayed late, discarded at the root, never run) is still judged by the exactly-once rules (C02).
    window_reported: bool,
}

#[derive(Clone, Debug)]
struct Reg
{
    actor: ActorId,
    trig: Trig,
    group: usize,
    live: bool,
    since: usize,
}

#[derive(Clone, Debug)]
struct Group
{
    actor: ActorId,
    mode: Mode,
}

#[derive(Clone, Debug)]
struct Token
{
    actor: ActorId,
    trigs: Vec<Trig>,
}

#[derive(Clone, Debug)]
struct AActor
{
    alive: bool,
    /// Abstract reference count hit zero; must be despawned by the next garbage collection.
    doomed: bool,
    /// A garbage collection has happened since `doomed`.
    must_be_dead: bool,
    variant: Variant,
    runs: u32,
    once: bool,
    once_ran: bool,
    /// Has a ref-counted group (Cleanup / Revokable / once).
    refcounted: bool,
    /// Liveness samples are meaningful for this actor from this trace position on.
    sampled_from: usize,
    canary_dropped: bool,
    /// Despawned explicitly by the program (DespawnSys) or by its own once-wrapper.
    killed: bool,
}

#[derive(Clone, Debug)]
struct AEnt
{
    /// Harness holds an auto-despawn signal for this entity.
    signal: bool,
    /// Clones of the signal captured by actor closures (released when the actor's system state is dropped).
    actor_signals: u32,
    /// The signal has been dropped: despawned (with descendants) by the next garbage collection.
    doomed: bool,
    alive: bool,
    comps: [Option<u8>; 2],
    parent: Option<EntId>,
}

#[derive(Clone, Debug)]
struct Frame
{
    id: RunId,
    obl: Option<usize>,
    body_exited: bool,
    /// Trace position of the last "a queued command of this frame starts" event.
    sub_boundary: usize,
    cur_cmd: Option<CmdId>,
    issued: u16,
    applied: u16,
}

#[derive(Clone, Debug)]
struct PayloadInfo
{
    kind: Kind,
    obls: Vec<usize>,
    created_at: usize,
    dropped: u32,
    /// Dropped only after the teardown marker.
    leaked: bool,
    /// The next boundary after creation has passed.
    boundary_passed: bool,
}

#[derive(Clone, Debug)]
struct PolledEvent
{
    /// `Some(comp)` for a removal, `None` for a despawn.
    comp: Option<Comp>,
    ent: EntId,
    at: usize,
    /// Registrations that have reacted.
    reacted: Vec<usize>,
    /// Set once the event has passed a deadline check.
    closed: bool,
}

#[derive(Clone, Copy, Debug, PartialEq, Eq)]
enum Pending
{
    None,
    /// CommandApply seen for obligation, waiting for RunnerEnter.
    Cmd(usize),
    /// RunnerReplay seen for target.
    Replay(ActorId),
    /// RunnerDiscard seen.
    Discard(ActorId),
}

/// Runner invocation in progress (between RunnerEnter and RunnerExit).
#[derive(Clone, Debug)]
struct RunnerInv
{
    target: Name,
    obl: Option<usize>,
    replay: bool,
    decided: Option<Decision>,
    reinsert_pos: Option<usize>,
    counter: u32,
}

/// Per-target bookkeeping for R-fifo over postponed deliveries.
///
/// Obligations with identical data are interchangeable, so "the order was respected" means: the sequence of replays
/// is a shuffle of the per-sender queues. All consistent assignments are tracked at once (NFA over queue positions);
/// the order is broken only when no assignment survives.
#[derive(Clone, Debug, Default)]
struct Fifo
{
    queues: Vec<((Issuer, usize), Vec<usize>)>,
    states: Vec<Vec<usize>>,
}

impl Fifo
{
    fn push(&mut self, sender: (Issuer, usize), obl: usize)
    {
        if self.states.is_empty() { self.states.push(Vec::new()); }
        match self.queues.iter_mut().find(|(s, _)| *s == sender)
        {
            Some((_, q)) => q.push(obl),
            None =>
            {
                self.queues.push((sender, vec![obl]));
                for st in self.states.iter_mut() { st.push(0); }
            }
        }
    }

    /// Advances every state by one head that satisfies `ok`; returns the obligation consumed on the first surviving
    /// path, or `None` if no assignment survives (states are left unchanged in that case).
    fn step(&mut self, ok: impl Fn(usize) -> bool) -> Option<usize>
    {
        let mut next: Vec<Vec<usize>> = Vec::new();
        let mut chosen = None;
        for st in self.states.iter()
        {
            for (q, (_, queue)) in self.queues.iter().enumerate()
            {
                let pos = st[q];
                if pos >= queue.len() { continue; }
                if !ok(queue[pos]) { continue; }
                let mut n = st.clone();
                n[q] += 1;
                if chosen.is_none() { chosen = Some(queue[pos]); }
                if !next.contains(&n) { next.push(n); }
            }
        }
        if next.is_empty() { return None; }
        self.states = next;
        chosen
    }

    /// Obligations not yet consumed on some path.
    fn pending(&self) -> Vec<usize>
    {
        let mut v = Vec::new();
        for (q, (_, queue)) in self.queues.iter().enumerate()
        {
            let min = self.states.iter().map(|s| s[q]).min().unwrap_or(0);
            v.extend(queue[min..].iter().copied());
        }
        v
    }

    /// Resynchronises after a violation: forget `obl` wherever it is.
    fn remove(&mut self, obl: usize)
    {
        for (q, (_, queue)) in self.queues.iter_mut().enumerate()
        {
            if let Some(p) = queue.iter().position(|x| *x == obl)
            {
                queue.remove(p);
                for st in self.states.iter_mut() { if st[q] > p { st[q] -= 1; } }
            }
        }
        self.states.dedup();
    }
}

pub struct MonitorOut
{
    pub violations: Vec<Violation>,
    pub state_hashes: Vec<u64>,
    pub transitions: u64,
    pub runs: u32,
    pub postponed: u32,
    pub aborted: u32,
    pub polled_runs: u32,
    pub max_depth: u32,
    pub cross_sender_reorder: u32,
    pub marks_reassigned: u32,
    pub outcome_hash: u64,
}

pub struct Monitor<'a>
{
    #[allow(dead_code)]
    cfg: &'a Config,
    actors: Vec<AActor>,
    ents: Vec<AEnt>,
    regs: Vec<Reg>,
    groups: Vec<Group>,
    tokens: Vec<Token>,
    res: u8,
    obls: Vec<Obl>,
    frames: Vec<Frame>,
    runners: Vec<RunnerInv>,
    payloads: HashMap<PayloadId, PayloadInfo>,
    /// Payloads created by an issued operation whose command has not been applied yet, and those among them that were
    /// dropped before that (legitimate iff nobody has to read them when the command takes effect).
    announced: std::collections::HashSet<PayloadId>,
    dropped_before_apply: std::collections::HashSet<PayloadId>,
    polled: Vec<PolledEvent>,
    fifos: HashMap<ActorId, Fifo>,
    issued: HashMap<CmdId, Issued>,
    pending: Pending,
    /// Root-level "frame": position of the last top-level command start.
    root_sub_boundary: usize,
    root_cmd: Option<CmdId>,
    root_cmd_pos: usize,
    teardown: bool,
    /// A garbage-collection pass is in progress (only drop events have been seen since its hook): the pass drains the
    /// channel until it is empty, so whatever the drops of this pass release is collected by the same pass.
    gc_open: bool,
    /// System-state constructions seen, and the construction each actor's state belongs to.
    state_builds: u32,
    state_ordinals: HashMap<ActorId, i64>,
    pos: usize,
    out: MonitorOut,
    /// Removal tracking is active for a component once any removal reactor for it has been registered.
    removal_tracked: [bool; 2],
    /// Set when the abstract state can no longer be trusted (after a structural violation).
    desynced: bool,
    last_top_op: Option<Op>,
    tree_polled_since_top: bool,
    last_event_was_root_exit: bool,
    revoked_since_table_ok: bool,
}

fn comp_idx(c: Comp) -> usize { match c { Comp::A => 0, Comp::B => 1 } }
fn ev_idx(e: Ev) -> usize { match e { Ev::A => 0, Ev::B => 1 } }

impl<'a> Monitor<'a>
{
    pub fn new(cfg: &'a Config) -> Self
    {
        let mut actors: Vec<AActor> = cfg.actors.iter().map(|v| AActor{
            alive: true, doomed: false, must_be_dead: false, variant: *v, runs: 0, once: false, once_ran: false,
            refcounted: false, sampled_from: 0, canary_dropped: false, killed: false,
        }).collect();
        if let (Some(v), true) = (cfg.ewr, cfg.app_reactors.is_empty())
        {
            // the entity world reactor's system exists from the start (app reactors, if any, are added first through
            // their setup operations and the world reactor is then appended by `add_actor`)
            actors.push(AActor{
                alive: true, doomed: false, must_be_dead: false, variant: v, runs: 0, once: false, once_ran: false,
                refcounted: false, sampled_from: 0, canary_dropped: false, killed: false,
            });
        }
        let mut ents: Vec<AEnt> = (0..cfg.n_ents).map(|i| AEnt{ signal: cfg.auto_ents.contains(&i), actor_signals: cfg.actor_signals.iter().filter(|(_, e)| *e == i).count() as u32, doomed: false, alive: true, comps: [None, None], parent: None }).collect();
        for (c, p) in cfg.children.iter() { ents[*c as usize].parent = Some(*p); }
        Monitor{
            cfg, actors, ents,
            regs: Vec::new(), groups: Vec::new(), tokens: Vec::new(), res: 0,
            obls: Vec::new(), frames: Vec::new(), runners: Vec::new(), payloads: HashMap::new(), announced: Default::default(), dropped_before_apply: Default::default(), polled: Vec::new(), fifos: HashMap::new(),
            issued: HashMap::new(), pending: Pending::None, root_sub_boundary: 0, root_cmd: None, root_cmd_pos: 0, teardown: false, gc_open: false, state_builds: 0, state_ordinals: HashMap::new(),
            pos: 0,
            out: MonitorOut{
                violations: Vec::new(), state_hashes: Vec::new(), transitions: 0, runs: 0, postponed: 0, aborted: 0,
                polled_runs: 0, max_depth: 0, cross_sender_reorder: 0, marks_reassigned: 0, outcome_hash: 0,
            },
            removal_tracked: [false, false],
            desynced: false,
            last_top_op: None,
            tree_polled_since_top: false,
            last_event_was_root_exit: false,
            revoked_since_table_ok: false,
        }
    }

    fn viol(&mut self, property: &str, rule: &str, signature: String, detail: String)
    {
        if self.out.violations.len() >= 16 { return; }
        self.out.violations.push(Violation{
            property: property.to_string(),
            rule: rule.to_string(),
            detail: format!("@{}: {}", self.pos, detail),
            signature,
        });
    }

    //---------------------------------------------------------------------------------------------------------------
    // helpers

    fn busy(&self, a: ActorId) -> bool { self.frames.iter().any(|f| f.id.actor == a) }

    /// Sender identity for R-fifo. Polled reactions (removal / despawn) are not sent by a run: each is its own sender.
    fn fifo_sender(&self, obl: usize) -> (Issuer, usize)
    {
        let o = &self.obls[obl];
        if o.polled { (o.creator.by, obl + 1) } else { (o.creator.by, 0) }
    }

    fn busy_frame(&self, a: ActorId) -> Option<RunId> { self.frames.iter().find(|f| f.id.actor == a).map(|f| f.id) }

    fn actor_alive(&self, a: ActorId) -> bool { self.actors.get(a as usize).map(|x| x.alive).unwrap_or(false) }

    fn group_refs(&self, g: usize) -> u32
    {
        let regs = self.regs.iter().filter(|r| r.live && r.group == g).count() as u32;
        let pend = self.obls.iter()
            .filter(|o| o.holds_group == Some(g)
                && !matches!(o.state, OState::Done | OState::Aborted | OState::Cancelled))
            .count() as u32;
        regs + pend
    }

    /// Re-evaluates reference counts of ref-counted groups; marks actors doomed.
    fn update_refcounts(&mut self)
    {
        for g in 0..self.groups.len()
        {
            if self.groups[g].mode == Mode::Persistent { continue; }
            let a = self.groups[g].actor as usize;
            if !self.actors[a].alive || self.actors[a].doomed { continue; }
            if self.group_refs(g) == 0 { self.actors[a].doomed = true; }
        }
    }

    /// A garbage collection is happening now: doomed actors die.
    fn gc_point(&mut self)
    {
        // auto-despawned trigger entities go first (recursively); whatever their despawn releases is collected by the
        // same garbage collection
        let doomed: Vec<EntId> = (0..self.ents.len() as EntId).filter(|e| self.ents[*e as usize].doomed).collect();
        for e in doomed
        {
            self.ents[e as usize].doomed = false;
            self.kill_ent(e, true);
        }
        self.update_refcounts();
        for a in self.actors.iter_mut()
        {
            if a.doomed && a.alive
            {
                a.alive = false;
                a.must_be_dead = true;
            }
        }
    }

    fn kill_ent(&mut self, e: EntId, recursive: bool)
    {
        if !self.ents[e as usize].alive { return; }
        let at = self.pos;
        self.ents[e as usize].alive = false;
        for k in 0..2
        {
            if self.ents[e as usize].comps[k].take().is_some()
            {
                let comp = if k == 0 { Comp::A } else { Comp::B };
                self.polled.push(PolledEvent{ comp: Some(comp), ent: e, at, reacted: Vec::new(), closed: false });
            }
        }
        // despawn reactions: every live despawn registration becomes a pending (polled) obligation
        let mut fired = false;
        for i in 0..self.regs.len()
        {
            let r = self.regs[i].clone();
            if !r.live { continue; }
            match r.trig
            {
                Trig::Despawn(x) if x == e =>
                {
                    self.regs[i].live = false;
                    fired = true;
                    let optional = !self.actor_alive(r.actor);
                    let holds = if self.groups[r.group].mode != Mode::Persistent { Some(r.group) } else { None };
                    let seq = self.obls.len();
                    self.obls.push(Obl{
                        actor: r.actor, kind: Kind::Despawn, source: Some(Name::Ent(e)), payload: None,
                        creator: self.cur_cmd().unwrap_or(CmdId{ by: Issuer::Top, idx: u16::MAX }),
                        created_at: at, polled: true, state: OState::Created, optional, holds_group: holds, seq,
                        postponed_on: None, run: None, postponed_at: 0, run_at: 0, window_reported: false,
                    });
                }
                t if t.entity() == Some(e) => { self.regs[i].live = false; }
                _ => {}
            }
        }
        if fired
        {
            self.polled.push(PolledEvent{ comp: None, ent: e, at, reacted: Vec::new(), closed: false });
        }
        if recursive
        {
            let kids: Vec<EntId> = (0..self.ents.len() as EntId)
                .filter(|k| self.ents[*k as usize].parent == Some(e))
                .collect();
            for k in kids { self.kill_ent(k, true); }
        }
    }

    fn cur_cmd(&self) -> Option<CmdId>
    {
        match self.frames.last()
        {
            Some(f) => f.cur_cmd,
            None => self.root_cmd,
        }
    }

    fn matching_regs(&self, pred: impl Fn(&Trig) -> bool) -> Vec<usize>
    {
        self.regs.iter().enumerate().filter(|(_, r)| r.live && pred(&r.trig)).map(|(i, _)| i).collect()
    }

    fn new_obl(&mut self, actor: ActorId, kind: Kind, source: Option<Name>, payload: Option<PayloadId>, cmd: CmdId)
        -> usize
    {
        let optional = !self.actor_alive(actor);
        let seq = self.obls.len();
        self.obls.push(Obl{
            actor, kind, source, payload, creator: cmd, created_at: self.pos, polled: false,
            state: OState::Created, optional, holds_group: None, seq, postponed_on: None, run: None, postponed_at: 0, run_at: 0, window_reported: false,
        });
        if let Some(p) = payload
        {
            if let Some(info) = self.payloads.get_mut(&p) { info.obls.push(seq); }
        }
        seq
    }

    fn fire(&mut self, regs: Vec<usize>, kind: Kind, source: Option<Name>, payload: Option<PayloadId>, cmd: CmdId)
    {
        for i in regs
        {
            let actor = self.regs[i].actor;
            self.new_obl(actor, kind, source, payload, cmd);
        }
    }

    //---------------------------------------------------------------------------------------------------------------
    // abstract effects of ops

    fn register(&mut self, actor: ActorId, bundle: &Bundle, mode: Mode, token: Option<TokenId>)
    {
        let g = self.groups.len();
        self.groups.push(Group{ actor, mode });
        if mode != Mode::Persistent { self.actors[actor as usize].refcounted = true; }
        let mut trigs = Vec::new();
        for t in bundle.iter()
        {
            trigs.push(t);
            match t
            {
                Trig::Removal(c) | Trig::EntityRemoval(c, _) => { self.removal_tracked[comp_idx(c)] = true; }
                _ => {}
            }
            let effective = match t.entity() { Some(e) => self.ents[e as usize].alive, None => true };
            if !effective { continue; }
            self.regs.push(Reg{ actor, trig: t, group: g, live: true, since: self.pos });
        }
        if let Some(tok) = token
        {
            while self.tokens.len() <= tok as usize { self.tokens.push(Token{ actor, trigs: Vec::new() }); }
            self.tokens[tok as usize] = Token{ actor, trigs };
        }
        self.update_refcounts();
    }

    fn revoke(&mut self, tok: TokenId)
    {
        let Some(token) = self.tokens.get(tok as usize).cloned() else { return };
        for t in token.trigs.iter()
        {
            if t.entity().is_some() && !matches!(t, Trig::Despawn(_))
            {
                // entity-scoped: every matching entry of this reactor on that entity goes
                for r in self.regs.iter_mut()
                {
                    if r.live && r.actor == token.actor && r.trig == *t { r.live = false; }
                }
            }
            else
            {
                // type-keyed lists and despawn lists: first matching entry
                if let Some(r) = self.regs.iter_mut().find(|r| r.live && r.actor == token.actor && r.trig == *t)
                {
                    r.live = false;
                }
            }
            // a despawn reaction that has not been scheduled yet is cancelled by revoking its trigger
            // (the registration was not there "throughout")
            if let Trig::Despawn(e) = t
            {
                for o in self.obls.iter_mut()
                {
                    if o.state == OState::Created && o.polled && o.kind == Kind::Despawn && o.actor == token.actor
                        && o.source == Some(Name::Ent(*e))
                    {
                        o.state = OState::Cancelled;
                    }
                }
            }
        }
        self.update_refcounts();
    }

    fn apply_op(&mut self, cmd: CmdId, issued: &Issued)
    {
        match issued.op
        {
            Op::Run(a) => { self.new_obl(a, Kind::Manual, None, None, cmd); }
            Op::SysEvent(a) =>
            {
                let p = issued.payload.unwrap();
                self.payloads.insert(p, PayloadInfo{
                    kind: Kind::SysEvent, obls: Vec::new(), created_at: self.pos, dropped: 0, leaked: false,
                    boundary_passed: false,
                });
                self.new_obl(a, Kind::SysEvent, None, Some(p), cmd);
                self.settle_dropped_before_apply(p);
            }
            Op::Broadcast(ev) =>
            {
                let p = issued.payload.unwrap();
                self.payloads.insert(p, PayloadInfo{
                    kind: Kind::Broadcast, obls: Vec::new(), created_at: self.pos, dropped: 0, leaked: false,
                    boundary_passed: false,
                });
                let regs = self.matching_regs(|t| *t == Trig::Broadcast(ev));
                self.fire(regs, Kind::Broadcast, None, Some(p), cmd);
                self.settle_dropped_before_apply(p);
            }
            Op::EntityEvent(ev, e) =>
            {
                let p = issued.payload.unwrap();
                self.payloads.insert(p, PayloadInfo{
                    kind: Kind::EntityEvent, obls: Vec::new(), created_at: self.pos, dropped: 0, leaked: false,
                    boundary_passed: false,
                });
                if self.ents[e as usize].alive
                {
                    let regs = self.matching_regs(|t| *t == Trig::EntityEvent(ev, e) || *t == Trig::AnyEntityEvent(ev));
                    self.fire(regs, Kind::EntityEvent, Some(Name::Ent(e)), Some(p), cmd);
                }
                self.settle_dropped_before_apply(p);
            }
            Op::Insert(k, e, v) =>
            {
                if issued.issue_ok && self.ents[e as usize].alive
                {
                    // the mirror observer's insert on entity 1 is applied, and its reactions scheduled, before the
                    // command that schedules this insert's own reactions
                    if self.cfg.mirror_observer && k == Comp::A && e == 0 && self.ents.len() > 1 && self.ents[1].alive
                    {
                        self.ents[1].comps[comp_idx(k)] = Some(v);
                        let regs = self.matching_regs(|t| *t == Trig::EntityInsertion(k, 1) || *t == Trig::Insertion(k));
                        self.fire(regs, Kind::Insertion(k), Some(Name::Ent(1)), None, cmd);
                    }
                    self.ents[e as usize].comps[comp_idx(k)] = Some(v);
                    let regs = self.matching_regs(|t| *t == Trig::EntityInsertion(k, e) || *t == Trig::Insertion(k));
                    self.fire(regs, Kind::Insertion(k), Some(Name::Ent(e)), None, cmd);
                }
            }
            Op::Mutate(k, e, how) =>
            {
                let alive = self.ents[e as usize].alive;
                let cur = self.ents[e as usize].comps[comp_idx(k)];
                let mut trigger = false;
                match how
                {
                    How::GetMut => if let (true, Some(v)) = (alive, cur)
                    {
                        self.ents[e as usize].comps[comp_idx(k)] = Some(v ^ 1);
                        trigger = true;
                    }
                    How::SetIfNeq(n) => if let (true, Some(v)) = (alive, cur)
                    {
                        if v != n { self.ents[e as usize].comps[comp_idx(k)] = Some(n); trigger = true; }
                    }
                    How::NoReact(n) => if let (true, Some(_)) = (alive, cur)
                    {
                        self.ents[e as usize].comps[comp_idx(k)] = Some(n);
                    }
                    How::Read => {}
                    How::Trigger => { trigger = true; }
                }
                if trigger
                {
                    let regs = self.matching_regs(|t| {
                        (*t == Trig::EntityMutation(k, e) && alive) || *t == Trig::Mutation(k)
                    });
                    self.fire(regs, Kind::Mutation(k), Some(Name::Ent(e)), None, cmd);
                }
            }
            Op::MutateNow(e, _) =>
            {
                // exactly one trigger per triggering accessor call, whatever happened to the entity since the call
                if issued.issue_ok
                {
                    let alive = self.ents[e as usize].alive;
                    let regs = self.matching_regs(|t| {
                        (*t == Trig::EntityMutation(Comp::A, e) && alive) || *t == Trig::Mutation(Comp::A)
                    });
                    self.fire(regs, Kind::Mutation(Comp::A), Some(Name::Ent(e)), None, cmd);
                }
            }
            Op::ResMutate(how) =>
            {
                let mut trigger = false;
                match how
                {
                    How::GetMut => { self.res ^= 1; trigger = true; }
                    How::SetIfNeq(n) => { if self.res != n { self.res = n; trigger = true; } }
                    How::NoReact(n) => { self.res = n; }
                    How::Read => {}
                    How::Trigger => { trigger = true; }
                }
                if trigger
                {
                    let regs = self.matching_regs(|t| *t == Trig::ResMut);
                    self.fire(regs, Kind::Resource, None, None, cmd);
                }
            }
            Op::RemoveComp(k, e) =>
            {
                if self.ents[e as usize].alive && self.ents[e as usize].comps[comp_idx(k)].take().is_some()
                {
                    self.polled.push(PolledEvent{
                        comp: Some(k), ent: e, at: self.pos, reacted: Vec::new(), closed: false
                    });
                }
            }
            Op::Clear(e) =>
            {
                if self.ents[e as usize].alive
                {
                    for k in 0..2
                    {
                        if self.ents[e as usize].comps[k].take().is_some()
                        {
                            let comp = if k == 0 { Comp::A } else { Comp::B };
                            self.polled.push(PolledEvent{
                                comp: Some(comp), ent: e, at: self.pos, reacted: Vec::new(), closed: false
                            });
                        }
                    }
                    // Entity-scoped registrations are stored on the entity itself and go with `clear()`;
                    // despawn registrations stay (the entity is alive).
                    for r in self.regs.iter_mut()
                    {
                        if r.live && r.trig.entity() == Some(e) && !matches!(r.trig, Trig::Despawn(_)) { r.live = false; }
                    }
                    self.update_refcounts();
                }
            }
            Op::Despawn(e) => { self.kill_ent(e, false); self.update_refcounts(); }
            Op::DespawnRecursive(e) => { self.kill_ent(e, true); self.update_refcounts(); }
            Op::DespawnSys(a) =>
            {
                if let Some(x) = self.actors.get_mut(a as usize)
                {
                    if x.alive { x.alive = false; x.killed = true; x.must_be_dead = true; }
                }
            }
            Op::StripSys(a) =>
            {
                // the system is gone for every purpose, its (empty) entity stays unless the system was executing (the
                // runner then despawns the entity when it cannot put the callback back)
                if let Some(x) = self.actors.get_mut(a as usize)
                {
                    if x.alive { x.alive = false; x.killed = true; }
                }
            }
            Op::TagSys(_) => {}
            Op::Register(a, b, mode) => { self.register(a, &b, mode, issued.token); }
            Op::RegisterNew(variant, b, mode) =>
            {
                let id = issued.new_actor.unwrap();
                self.add_actor(id, variant, false);
                self.register(id, &b, mode, issued.token);
            }
            Op::Once(variant, b) =>
            {
                let id = issued.new_actor.unwrap();
                self.add_actor(id, variant, true);
                self.register(id, &b, Mode::Revokable, issued.token);
            }
            Op::Revoke(k) => { self.revoke(k); self.revoked_since_table_ok = true; }
            Op::Gc => {}
            Op::Poll => { self.gc_irrelevant(); }
            Op::Nop => {}
            Op::EwrAdd(e) =>
            {
                if let Some(a) = self.cfg.ewr_actor()
                {
                    if self.actors.len() <= a as usize { self.add_actor(a, self.cfg.ewr.unwrap_or(Variant::Plain), false); }
                    if issued.issue_ok && self.ents[e as usize].alive
                    {
                        self.register(a, &Bundle::two(Trig::EntityEvent(Ev::A, e), Trig::EntityMutation(Comp::A, e)), Mode::Persistent, None);
                    }
                }
            }
            Op::EwrRemove(e, w) =>
            {
                if let Some(a) = self.cfg.ewr_actor()
                {
                    let trigs: Vec<Trig> = match w
                    {
                        0 => vec![Trig::EntityEvent(Ev::A, e)],
                        1 => vec![Trig::EntityMutation(Comp::A, e)],
                        _ => vec![Trig::EntityEvent(Ev::A, e), Trig::EntityMutation(Comp::A, e)],
                    };
                    for r in self.regs.iter_mut()
                    {
                        if r.live && r.actor == a && trigs.contains(&r.trig) { r.live = false; }
                    }
                    self.revoked_since_table_ok = true;
                    self.update_refcounts();
                }
            }
            Op::DropSignal(e) =>
            {
                let x = &mut self.ents[e as usize];
                if x.signal { x.signal = false; if x.alive && x.actor_signals == 0 { x.doomed = true; } }
            }
        }
    }

    fn gc_irrelevant(&mut self) {}

    /// A payload that was dropped before its command took effect must have no reader now.
    fn settle_dropped_before_apply(&mut self, p: PayloadId)
    {
        if !self.dropped_before_apply.remove(&p) { return; }
        let Some(info) = self.payloads.get_mut(&p) else { return };
        info.dropped += 1;
        let obls = info.obls.clone();
        for i in obls
        {
            let o = self.obls[i].clone();
            if o.optional || !self.actor_alive(o.actor) { continue; }
            self.viol("C05", "R-release", format!("early-drop:{:?}:before-apply", kind_class(o.kind)),
                format!("payload {p} was dropped before its command took effect although actor {} has to read it", o.actor));
        }
    }

    /// Body-time accessors take effect on the stored value while the body runs.
    fn on_issue_time(&mut self, issued: &Issued)
    {
        let Op::MutateNow(e, how) = issued.op else { return };
        let alive = self.ents[e as usize].alive;
        let cur = if alive { self.ents[e as usize].comps[0] } else { None };
        let (expect_trigger, expect_value): (bool, Option<i16>) = match (how, cur)
        {
            (How::GetMut, Some(v)) => { self.ents[e as usize].comps[0] = Some(v ^ 1); (true, None) }
            (How::GetMut, None) => (false, None),
            (How::SetIfNeq(n), Some(v)) =>
            {
                if v != n { self.ents[e as usize].comps[0] = Some(n); (true, Some(v as i16)) } else { (false, Some(-1)) }
            }
            (How::SetIfNeq(_), None) => (false, Some(-1)),
            (How::NoReact(n), Some(_)) => { self.ents[e as usize].comps[0] = Some(n); (false, None) }
            _ => (false, None),
        };
        if issued.issue_ok != expect_trigger
        {
            self.viol("C14", "R-accessor", format!("accessor-trigger-decision:{:?}", how),
                format!("{:?} on entity {e} (component {:?}): accessor triggered={}, expected {}", how, cur, issued.issue_ok, expect_trigger));
        }
        if expect_value.is_some() && issued.value != expect_value
        {
            self.viol("C14", "R-accessor", "set-if-neq-return".into(),
                format!("set_if_neq on entity {e} (component {:?}) returned {:?}, expected {:?}", cur, issued.value, expect_value));
        }
    }

    fn add_actor(&mut self, id: ActorId, variant: Variant, once: bool)
    {
        while self.actors.len() <= id as usize
        {
            self.actors.push(AActor{
                alive: true, doomed: false, must_be_dead: false, variant, runs: 0, once, once_ran: false,
                refcounted: false, sampled_from: usize::MAX, canary_dropped: false, killed: false,
            });
        }
        let a = &mut self.actors[id as usize];
        a.variant = variant;
        a.once = once;
        // the creating commands follow the marker, so samples are meaningful only after it
        a.sampled_from = self.pos + 1;
    }

    //---------------------------------------------------------------------------------------------------------------
    // rule checks

    /// R-life at a liveness sample.
    fn check_live(&mut self, live: &Live)
    {
        for i in 0..self.actors.len()
        {
            let a = self.actors[i].clone();
            if a.sampled_from >= self.pos { continue; }
            let observed = live.actors & (1 << i) != 0;
            let prop = if a.once { "C15" } else { "C07" };
            if a.alive && !a.doomed && !observed && !a.killed
            {
                self.viol(prop, "R-life", format!("premature-despawn:refcounted={}", a.refcounted),
                    format!("actor {i} is gone although it is persistent or still has a registered trigger / pending \
                        despawn reaction"));
                self.actors[i].alive = false;
                self.actors[i].killed = true;
            }
            if a.must_be_dead && !a.alive && observed && !a.killed
            {
                self.viol(prop, "R-life", "leak".into(),
                    format!("actor {i} still exists after a garbage collection although nothing keeps it alive"));
                self.actors[i].must_be_dead = false;
            }
            if a.killed && !a.alive && a.must_be_dead && observed
            {
                self.viol("C18", "R-life", "killed-but-alive".into(), format!("actor {i} was despawned but exists"));
                self.actors[i].must_be_dead = false;
            }
        }
        for i in 0..self.ents.len()
        {
            let observed = live.ents & (1 << i) != 0;
            if self.ents[i].alive != observed
            {
                self.viol("C08", "R-life-entity", "entity-liveness".into(),
                    format!("entity {i}: abstract alive={} observed alive={}", self.ents[i].alive, observed));
                self.ents[i].alive = observed;
            }
            if observed
            {
                for k in 0..2
                {
                    let obs = live.comps.get(i).map(|c| c[k]).unwrap_or(-1);
                    let abs = self.ents[i].comps[k].map(|v| v as i8).unwrap_or(-1);
                    if obs != abs
                    {
                        self.viol("C14", "R-value", "component-value".into(),
                            format!("entity {i} comp {k}: abstract {abs} observed {obs}"));
                        self.ents[i].comps[k] = if obs < 0 { None } else { Some(obs as u8) };
                    }
                }
            }
        }
        if live.res != self.res
        {
            self.viol("C14", "R-value", "resource-value".into(),
                format!("resource: abstract {} observed {}", self.res, live.res));
            self.res = live.res;
        }
    }

    /// R-window: a queued command of the frame at `level` starts (or the frame ends). Every obligation created since
    /// the previous command start must be discharged or be waiting for a busy target.
    /// `exempt_cmd`: unreached members of the fire group of this command are still "queued" and exempt.
    fn check_boundary(&mut self, since: usize, exempt_cmd: Option<CmdId>, closing: bool)
    {
        let mut bad: Vec<(usize, &'static str)> = Vec::new();
        for (i, o) in self.obls.iter().enumerate()
        {
            if o.created_at < since { continue; }
            match o.state
            {
                OState::Done | OState::Aborted | OState::Cancelled => {}
                OState::Created | OState::Scheduled =>
                {
                    if o.polled || o.optional || exempt_cmd == Some(o.creator) { continue; }
                    // its command should have been applied by now
                    bad.push((i, "unreached"));
                }
                OState::Postponed =>
                {
                    // legitimate only while the target is still executing
                    if self.busy(o.actor) || o.window_reported { continue; }
                    bad.push((i, "postponed-not-replayed"));
                }
                OState::Reached | OState::Running | OState::Exited => bad.push((i, "still-open")),
            }
        }
        let _ = closing;
        // Marks are one of possibly several consistent assignments of replayed runs to interchangeable postponed
        // deliveries (same target, same observable data, no payload). Before reporting a delivery of this boundary as
        // not replayed, look for an interchangeable delivery *outside* this boundary's scope that is marked as
        // replayed after this one was postponed: the run may equally have been this one's, and the other delivery is
        // then judged at its own boundary.
        let mut bad2: Vec<(usize, &'static str)> = Vec::new();
        for (i, why) in bad
        {
            if why == "postponed-not-replayed" && self.obls[i].payload.is_none()
            {
                // The unmarked delivery ("hole") takes the mark of an interchangeable delivery whose run / abort came
                // after the hole was postponed; if that delivery belongs to this boundary too it becomes the hole and
                // the search goes on (a rotation), otherwise it is judged at its own boundary.
                let mut hole = i;
                let mut used: Vec<usize> = vec![i];
                let mut resolved = false;
                loop
                {
                    let o = self.obls[hole].clone();
                    let cand = self.obls.iter().enumerate()
                        .filter(|(j, x)| !used.contains(j) && x.actor == o.actor
                            && x.kind == o.kind && x.source == o.source && x.payload.is_none() && x.postponed_on.is_some()
                            && matches!(x.state, OState::Running | OState::Exited | OState::Done | OState::Aborted)
                            && x.run_at > o.postponed_at)
                        .min_by_key(|(_, x)| x.run_at)
                        .map(|(j, _)| j);
                    let Some(j) = cand else { break };
                    let (si, sj) = (self.obls[hole].state, self.obls[j].state);
                    self.obls[hole].state = sj;
                    self.obls[j].state = si;
                    let (ri, rj) = (self.obls[hole].run, self.obls[j].run);
                    self.obls[hole].run = rj;
                    self.obls[j].run = ri;
                    let (ai, aj) = (self.obls[hole].run_at, self.obls[j].run_at);
                    self.obls[hole].run_at = aj;
                    self.obls[j].run_at = ai;
                    for f in self.frames.iter_mut()
                    {
                        if f.obl == Some(j) { f.obl = Some(hole); } else if f.obl == Some(hole) { f.obl = Some(j); }
                    }
                    self.out.marks_reassigned += 1;
                    used.push(j);
                    if self.obls[j].created_at < since { resolved = true; break; }
                    hole = j;
                }
                if resolved { continue; }
                bad2.push((hole, why));
                continue;
            }
            bad2.push((i, why));
        }
        for (i, why) in bad2
        {
            let o = self.obls[i].clone();
            // report once
            if why == "postponed-not-replayed" { self.obls[i].window_reported = true; }
            else { self.obls[i].state = OState::Cancelled; }
            let (prop, rule) = match (why, o.kind)
            {
                ("unreached", Kind::Manual) | ("unreached", Kind::SysEvent) => ("C02", "R-once"),
                ("unreached", _) => ("C01", "R-dispatch"),
                _ => ("C09", "R-window"),
            };
            self.viol(prop, rule, format!("{why}:{:?}", kind_class(o.kind)),
                format!("{why}: obligation actor={} kind={:?} source={:?} payload={:?} created by {:?} has not been \
                    discharged before the next queued command started", o.actor, o.kind, o.source, o.payload, o.creator));
        }
    }

    fn expected_readers(o: &Obl, variant: Variant) -> Readers
    {
        let mut r = Readers::default();
        match o.kind
        {
            Kind::Manual | Kind::Resource | Kind::Unknown => {}
            Kind::SysEvent => { if variant != Variant::NoTake { r.sys = o.payload; } }
            Kind::Broadcast => {}
            Kind::EntityEvent => {}
            Kind::Insertion(c) => { r.ins[comp_idx(c)] = o.source; }
            Kind::Mutation(c) => { r.mutn[comp_idx(c)] = o.source; }
            Kind::Removal(c) => { r.rem[comp_idx(c)] = o.source; }
            Kind::Despawn => { r.despawn = o.source; }
        }
        r
    }

    /// Compares reader samples. Broadcast / entity-event type is not part of the obligation kind, so those slots are
    /// compared through the payload id.
    fn readers_match(o: &Obl, variant: Variant, got: &Readers) -> Result<(), (bool, String)>
    {
        let mut exp = Self::expected_readers(o, variant);
        match o.kind
        {
            Kind::Broadcast =>
            {
                // exactly one broadcast slot holds this payload
                let hits = got.bcast.iter().filter(|p| **p == o.payload).count();
                if hits != 1 { return Err((false, format!("broadcast payload {:?} not readable: {:?}", o.payload, got.bcast))); }
                exp.bcast = got.bcast;
                if got.bcast.iter().filter(|p| p.is_some()).count() != 1
                {
                    return Err((true, format!("more than one broadcast readable: {:?}", got.bcast)));
                }
            }
            Kind::EntityEvent =>
            {
                let want = o.source.zip(o.payload);
                let hits = got.ent_ev.iter().filter(|p| **p == want).count();
                if hits != 1 { return Err((false, format!("entity event {:?} not readable: {:?}", want, got.ent_ev))); }
                exp.ent_ev = got.ent_ev;
                if got.ent_ev.iter().filter(|p| p.is_some()).count() != 1
                {
                    return Err((true, format!("more than one entity event readable: {:?}", got.ent_ev)));
                }
            }
            _ => {}
        }
        if exp == *got { return Ok(()); }
        // classify: missing expected data vs. extra data
        let missing =
            (exp.sys.is_some() && got.sys != exp.sys) ||
            (0..2).any(|i| exp.ins[i].is_some() && got.ins[i] != exp.ins[i]) ||
            (0..2).any(|i| exp.mutn[i].is_some() && got.mutn[i] != exp.mutn[i]) ||
            (0..2).any(|i| exp.rem[i].is_some() && got.rem[i] != exp.rem[i]) ||
            (exp.despawn.is_some() && got.despawn != exp.despawn);
        Err((!missing, format!("expected {:?}, readers returned {:?}", exp, got)))
    }

    //---------------------------------------------------------------------------------------------------------------
    // event processing

    fn state_hash(&mut self)
    {
        let mut h = DefaultHasher::new();
        for r in self.regs.iter().filter(|r| r.live) { (r.actor, r.trig, self.groups[r.group].mode).hash(&mut h); }
        for a in self.actors.iter() { (a.alive, a.doomed, a.once, a.once_ran).hash(&mut h); }
        for e in self.ents.iter() { (e.alive, e.comps).hash(&mut h); }
        self.res.hash(&mut h);
        let mut pend: Vec<_> = self.obls.iter()
            .filter(|o| !matches!(o.state, OState::Done | OState::Aborted | OState::Cancelled))
            .map(|o| (o.actor, o.kind, o.source, o.state, o.polled))
            .collect();
        pend.sort();
        pend.hash(&mut h);
        for f in self.frames.iter() { (f.id.actor, f.body_exited).hash(&mut h); }
        let undropped = self.payloads.values().filter(|p| p.dropped == 0).count();
        undropped.hash(&mut h);
        self.out.state_hashes.push(h.finish());
    }

    fn on_applied(&mut self, cmd: CmdId, live: &Live)
    {
        let Some(issued) = self.issued.get(&cmd).cloned() else
        {
            self.viol("*", "structure", "applied-unknown".into(), format!("marker of unknown command {:?}", cmd));
            return;
        };
        // which level?
        match cmd.by
        {
            Issuer::Run(rid) =>
            {
                let ok = self.frames.last().map(|f| f.id == rid && f.body_exited).unwrap_or(false);
                if !ok
                {
                    self.viol("C09", "R-order", "applied-outside-frame".into(),
                        format!("command {:?} applied while the innermost open frame is {:?}", cmd,
                            self.frames.last().map(|f| f.id)));
                    self.desynced = true;
                    return;
                }
                let (since, prev_cmd, expect_idx) = {
                    let f = self.frames.last().unwrap();
                    (f.sub_boundary, f.cur_cmd, f.applied)
                };
                if cmd.idx != expect_idx
                {
                    self.viol("C09", "R-order", "queue-order".into(),
                        format!("commands of {:?} applied out of order: got index {} expected {}", rid, cmd.idx, expect_idx));
                }
                let _ = prev_cmd;
                self.check_boundary(since, None, false);
                let pos = self.pos;
                let f = self.frames.last_mut().unwrap();
                f.sub_boundary = pos;
                f.cur_cmd = Some(cmd);
                f.applied = cmd.idx + 1;
            }
            Issuer::Top | Issuer::Setup =>
            {
                if !self.frames.is_empty()
                {
                    self.viol("C02", "R-once", "top-inside-frame".into(),
                        format!("top-level command applied while frames are open: {:?}", self.frames));
                    self.desynced = true;
                    return;
                }
                self.root_sub_boundary = self.pos;
                self.root_cmd_pos = self.pos;
                self.root_cmd = Some(cmd);
                self.last_top_op = Some(issued.op);
                self.tree_polled_since_top = false;
            }
        }
        for p in self.payloads.values_mut() { p.boundary_passed = true; }
        self.check_live(live);
        self.apply_op(cmd, &issued);
        self.state_hash();
    }

    fn find_obl_for_command(&self, kind: Kind, actor: ActorId, source: Option<Name>) -> Option<usize>
    {
        // prefer the most recently created matching obligation of the current command, else any
        let cur = self.cur_cmd();
        let mut best: Option<usize> = None;
        for (i, o) in self.obls.iter().enumerate()
        {
            if o.state != OState::Created { continue; }
            if o.actor != actor || o.kind != kind || o.source != source { continue; }
            if Some(o.creator) == cur && !o.polled { return Some(i); }
            if best.is_none() { best = Some(i); }
        }
        best
    }

    fn on_command_apply(&mut self, kind: Kind, target: Name, source: Option<Name>)
    {
        let Name::Actor(actor) = target else
        {
            // a cobweb command aimed at something that is not one of our actors
            self.viol("C01", "R-dispatch", "foreign-target".into(),
                format!("command {:?} applied for unknown target {:?}", kind, target));
            self.pending = Pending::None;
            return;
        };
        let polled_kind = matches!(kind, Kind::Removal(_) | Kind::Despawn);
        if !polled_kind
        {
            // a queued command of the current level starts
            let (since, exempt) = match self.frames.last()
            {
                Some(f) => (f.sub_boundary, f.cur_cmd),
                None => (self.root_sub_boundary, self.root_cmd),
            };
            self.check_boundary(since, exempt, false);
            let pos = self.pos;
            match self.frames.last_mut()
            {
                Some(f) => f.sub_boundary = pos,
                None => self.root_sub_boundary = pos,
            }
        }

        // polled reactions were announced when the poll scheduled them
        if polled_kind
        {
            let found = self.obls.iter().position(|o| o.state == OState::Scheduled && o.actor == actor && o.kind == kind
                && o.source == source);
            match found
            {
                Some(i) => { self.obls[i].state = OState::Reached; self.pending = Pending::Cmd(i); }
                None =>
                {
                    self.viol("C08", "R-polled", format!("unscheduled-polled-reaction:{}", kind_class(kind)),
                        format!("a {:?} reaction command for actor {actor} (source {:?}) is applied but no poll scheduled it", kind, source));
                    let cmd = self.cur_cmd().unwrap_or(CmdId{ by: Issuer::Top, idx: u16::MAX });
                    let i = self.new_obl(actor, kind, source, None, cmd);
                    self.obls[i].polled = true;
                    self.obls[i].state = OState::Reached;
                    self.pending = Pending::Cmd(i);
                }
            }
            return;
        }

        match self.find_obl_for_command(kind, actor, source)
        {
            Some(i) =>
            {
                self.obls[i].state = OState::Reached;
                if kind == Kind::Despawn
                {
                    let e = match source { Some(Name::Ent(e)) => e, _ => 0 };
                    if let Some(p) = self.polled.iter_mut().find(|p| p.comp.is_none() && p.ent == e)
                    {
                        p.reacted.push(i);
                    }
                }
                self.pending = Pending::Cmd(i);
            }
            None =>
            {
                // classify
                let cancelled = self.obls.iter().any(|o| o.state == OState::Cancelled && o.actor == actor
                    && o.kind == kind && o.source == source);
                let (prop, sig) = match kind
                {
                    Kind::Manual | Kind::SysEvent => ("C02", "command-applied-without-cause"),
                    Kind::Despawn if cancelled => ("C06", "revoked-despawn-reaction"),
                    Kind::Despawn => ("C08", "spurious-despawn"),
                    _ =>
                    {
                        // was there ever a registration of this actor for such a trigger that is now dead?
                        if self.regs.iter().any(|r| !r.live && r.actor == actor && trig_matches_kind(&r.trig, kind))
                        { ("C06", "reaction-for-dead-registration") }
                        else { ("C01", "reaction-without-registration") }
                    }
                };
                let once = self.actors.get(actor as usize).map(|a| a.once && a.once_ran).unwrap_or(false);
                let prop = if once { "C15" } else { prop };
                let src_alive = match source { Some(Name::Ent(e)) => self.ents[e as usize].alive, _ => true };
                // reactions on behalf of a dead entity are the stale-reference property
                let dispatch_prop = prop;
                let prop = if !src_alive && matches!(kind, Kind::EntityEvent | Kind::Insertion(_)) { "C18" } else { prop };
                if prop != dispatch_prop
                {
                    // ... and still a delivery that no live registration accounts for (C01) / that a revoked
                    // registration received (C06), whatever the state of the entity it names
                    self.viol(dispatch_prop, "R-dispatch", format!("{sig}:{:?}:src_alive={src_alive}", kind_class(kind)),
                        format!("the implementation applied a {:?} command for actor {actor} (source {:?}, gone) that no \
                            applied operation and live registration accounts for", kind, source));
                }
                if !src_alive && matches!(kind, Kind::Insertion(_))
                {
                    self.viol("C14", "R-dispatch", format!("{sig}:{:?}:src_alive={src_alive}", kind_class(kind)),
                        format!("an insertion reaction ran for actor {actor} although the component was not inserted \
                            (entity {:?} does not exist)", source));
                }
                self.viol(prop, "R-dispatch", format!("{sig}:{:?}:src_alive={src_alive}", kind_class(kind)),
                    format!("the implementation applied a {:?} command for actor {actor} (source {:?}) that no \
                        applied operation and live registration accounts for", kind, source));
                // Bind the run that follows to an ad-hoc obligation so that one defect yields one verdict.
                let cmd = self.cur_cmd().unwrap_or(CmdId{ by: Issuer::Top, idx: u16::MAX });
                let payload = self.issued.get(&cmd).and_then(|i| i.payload)
                    .filter(|_| matches!(kind, Kind::Broadcast | Kind::EntityEvent | Kind::SysEvent));
                let i = self.new_obl(actor, kind, source, payload, cmd);
                self.obls[i].state = OState::Reached;
                self.obls[i].polled = matches!(kind, Kind::Despawn);
                self.pending = Pending::Cmd(i);
            }
        }
    }

    /// A poll detected a removal / despawn and queued a reaction for `target`.
    fn on_scheduled(&mut self, kind: Kind, target: Name, source: Name)
    {
        let Name::Actor(actor) = target else
        {
            self.viol("C08", "R-polled", "foreign-target".into(), format!("polled reaction scheduled for unknown target {:?}", target));
            return;
        };
        let cmd = self.cur_cmd().unwrap_or(CmdId{ by: Issuer::Top, idx: u16::MAX });
        match kind
        {
            Kind::Removal(c) =>
            {
                let Name::Ent(e) = source else
                {
                    self.viol("C08", "R-polled", "removal-unknown-source".into(),
                        format!("removal reaction for {:?} with source {:?}", c, source));
                    return;
                };
                // a removal of that component from that entity which a registration of this actor, live now, has
                // not reacted to yet
                let ent_alive = self.ents[e as usize].alive;
                let mut found: Option<(usize, usize)> = None;
                // first the removals this registration is obliged to react to (registered before they happened),
                // then those it may react to (registered between the removal and the poll)
                'outer: for obliged in [true, false]
                {
                    for (pi, p) in self.polled.iter().enumerate()
                    {
                        if p.comp != Some(c) || p.ent != e || p.closed { continue; }
                        for (ri, r) in self.regs.iter().enumerate()
                        {
                            if !r.live || r.actor != actor { continue; }
                            if !(r.trig == Trig::Removal(c) || (r.trig == Trig::EntityRemoval(c, e) && ent_alive)) { continue; }
                            if (r.since <= p.at) != obliged { continue; }
                            if p.reacted.contains(&ri) { continue; }
                            found = Some((pi, ri));
                            break 'outer;
                        }
                    }
                }
                match found
                {
                    Some((pi, ri)) => { self.polled[pi].reacted.push(ri); }
                    None =>
                    {
                        let ever = self.polled.iter().any(|p| p.comp == Some(c) && p.ent == e);
                        let had_reg = self.regs.iter().any(|r| r.actor == actor && matches!(r.trig, Trig::Removal(x) | Trig::EntityRemoval(x, _) if x == c));
                        let (prop, sig) = if !ever { ("C08", "removal-reaction-without-removal") }
                            else if had_reg && !self.regs.iter().any(|r| r.live && r.actor == actor && matches!(r.trig, Trig::Removal(x) | Trig::EntityRemoval(x, _) if x == c)) { ("C06", "removal-reaction-for-dead-registration") }
                            else { ("C08", "duplicate-or-unregistered-removal-reaction") };
                        self.viol(prop, "R-polled", sig.into(),
                            format!("removal reaction of actor {actor} for {:?} on entity {e} scheduled: no unreacted removal \
                                of that component for a registration of that actor that is live now", c));
                    }
                }
                let i = self.new_obl(actor, kind, Some(source), None, cmd);
                self.obls[i].polled = true;
                self.obls[i].state = OState::Scheduled;
            }
            Kind::Despawn =>
            {
                let found = self.obls.iter().position(|o| o.state == OState::Created && o.polled && o.kind == Kind::Despawn
                    && o.actor == actor && o.source == Some(source));
                match found
                {
                    Some(i) => { self.obls[i].state = OState::Scheduled; }
                    None =>
                    {
                        let cancelled = self.obls.iter().any(|o| o.state == OState::Cancelled && o.actor == actor
                            && o.kind == kind && o.source == Some(source));
                        let src_alive = match source { Name::Ent(e) => self.ents[e as usize].alive, _ => false };
                        let (prop, sig) = if cancelled { ("C06", "revoked-despawn-reaction") }
                            else if src_alive { ("C08", "despawn-reaction-for-live-entity") }
                            else { ("C08", "duplicate-or-unregistered-despawn-reaction") };
                        self.viol(prop, "R-polled", sig.into(),
                            format!("despawn reaction of actor {actor} for {:?} scheduled although no despawn of that entity \
                                is pending for a registration of that actor (entity alive: {src_alive})", source));
                        let i = self.new_obl(actor, kind, Some(source), None, cmd);
                        self.obls[i].polled = true;
                        self.obls[i].state = OState::Scheduled;
                    }
                }
            }
            _ =>
            {
                self.viol("C08", "R-polled", "scheduled-non-polled-kind".into(), format!("{:?} scheduled by a poll", kind));
            }
        }
    }

    fn on_runner_enter(&mut self, target: Name, counter: u32)
    {
        let (obl, replay) = match self.pending
        {
            Pending::Cmd(i) => (Some(i), false),
            Pending::Replay(_) => (None, true),
            Pending::Discard(_) => (None, false),
            Pending::None => (None, false),
        };
        self.pending = Pending::None;
        self.runners.push(RunnerInv{ target, obl, replay, decided: None, reinsert_pos: None, counter });
        if counter == 0 && !self.frames.is_empty()
        {
            self.viol("C11", "R-quiet", "counter-zero-inside-tree".into(),
                "runner entered with tree position 0 while an execution is in progress".into());
        }
    }

    fn on_decision(&mut self, target: Name, decision: Decision)
    {
        let Name::Actor(actor) = target else { return };
        let alive = self.actor_alive(actor);
        let busy = self.busy(actor);
        let Some(inv) = self.runners.last().cloned() else { return };
        let ri = self.runners.len() - 1;
        self.runners[ri].decided = Some(decision);

        // which obligation is being decided?
        let mut obl = inv.obl;
        if inv.replay
        {
            obl = None;
            if decision != Decision::Run
            {
                // a postponed command is discharged without a run: any queue head may be the one
                let chosen = self.fifos.get_mut(&actor).and_then(|f| f.step(|_| true));
                let chosen = chosen.filter(|i| self.obls[*i].state == OState::Postponed);
                obl = chosen.or_else(|| self.obls.iter().position(|o| o.state == OState::Postponed && o.actor == actor));
                if decision == Decision::Postponed
                {
                    // re-postponed: goes back to the end of its sender's queue
                    if let Some(i) = obl
                    {
                        let sender = self.fifo_sender(i);
                        self.fifos.entry(actor).or_default().push(sender, i);
                    }
                }
            }
            self.runners[ri].obl = obl;
        }

        match decision
        {
            Decision::Run =>
            {
                if !alive
                {
                    self.viol("C18", "R-reach", "dead-target-run".into(),
                        format!("actor {actor} is abstractly dead but the runner extracted and runs it"));
                }
                if busy
                {
                    self.viol("C02", "R-reach", "reentrant-run".into(),
                        format!("actor {actor} is executing but the runner runs it again re-entrantly"));
                }
                if let Some(a) = self.actors.get(actor as usize)
                {
                    if a.once && a.once_ran
                    {
                        self.viol("C15", "R-once-only", "once-ran-twice".into(),
                            format!("one-off reactor {actor} runs a second time"));
                    }
                }
            }
            Decision::Postponed =>
            {
                self.out.postponed += 1;
                if !busy
                {
                    // not run in-line although the target is not executing: both the exactly-once / in-line clause
                    // (C02) and the telescoping order (C09)
                    self.viol("C02", "R-reach", "postponed-idle".into(),
                        format!("actor {actor} is not executing but its command was postponed"));
                    self.viol("C09", "R-reach", "postponed-idle".into(),
                        format!("actor {actor} is not executing but its command was postponed instead of running in-line"));
                }
                if let Some(i) = obl
                {
                    if self.obls[i].state != OState::Postponed
                    {
                        let sender = self.fifo_sender(i);
                        self.fifos.entry(actor).or_default().push(sender, i);
                    }
                    self.obls[i].state = OState::Postponed;
                    self.obls[i].postponed_on = self.busy_frame(actor);
                    self.obls[i].postponed_at = self.pos;
                }
            }
            Decision::AbortDead | Decision::AbortNoComponent | Decision::AbortRootMissing =>
            {
                self.out.aborted += 1;
                if alive && !busy
                {
                    let once_pending = self.actors[actor as usize].once && decision == Decision::AbortNoComponent;
                    if !once_pending
                    {
                        self.viol("C02", "R-reach", format!("live-idle-target-aborted:{:?}", decision),
                            format!("actor {actor} exists and is idle but its command was dropped ({:?})", decision));
                        // a removal / despawn reaction dropped although its reactor should exist: that removal / despawn
                        // is never reacted to by a reactor registered for it throughout
                        if obl.map(|i| matches!(self.obls[i].kind, Kind::Despawn | Kind::Removal(_))).unwrap_or(false)
                        {
                            self.viol("C08", "R-polled", format!("polled-reaction-aborted:{:?}", decision),
                                format!("a removal / despawn reaction for actor {actor} was dropped ({:?}) although the \
                                    actor should exist", decision));
                        }
                        // a replayed (postponed) command that is dropped although its target should exist: the
                        // postponement clause as well
                        if obl.map(|i| self.obls[i].state == OState::Postponed).unwrap_or(false)
                        {
                            self.viol("C09", "R-window", format!("postponed-aborted:{:?}", decision),
                                format!("a command postponed for actor {actor} was dropped on replay ({:?}) although \
                                    the actor should exist", decision));
                        }
                    }
                }
                else if alive && busy
                {
                    self.viol("C02", "R-reach", format!("busy-target-aborted:{:?}", decision),
                        format!("actor {actor} is executing; its command was dropped ({:?}) instead of postponed", decision));
                }
                if let Some(i) = obl
                {
                    self.obls[i].state = OState::Aborted;
                    // (the position at which a postponed delivery was discharged, used by the re-assignment of marks
                    // among interchangeable postponed deliveries)
                    self.obls[i].run_at = self.pos;
                    self.update_refcounts();
                }
            }
        }
    }

    fn on_run_enter(&mut self, id: RunId, local_ctr: u32, closure_ctr: u32, variant: Variant, readers: &Readers)
    {
        self.out.runs += 1;
        let actor = id.actor;
        if (actor as usize) >= self.actors.len()
        {
            self.viol("*", "structure", "unknown-actor-run".into(), format!("run of unknown actor {actor}"));
            self.desynced = true;
            return;
        }
        // R-state
        let runs = self.actors[actor as usize].runs;
        if local_ctr != runs || closure_ctr != runs
        {
            self.viol("C13", "R-state", "state-counters".into(),
                format!("actor {actor} run #{runs}: Local counter {local_ctr}, captured counter {closure_ctr}"));
        }
        self.actors[actor as usize].runs += 1;

        // the runner invocation that runs us
        let inv = self.runners.last().cloned();
        let decided_run = inv.as_ref().map(|r| r.target == Name::Actor(actor) && r.decided == Some(Decision::Run))
            .unwrap_or(false);
        if !decided_run
        {
            self.viol("C02", "R-once", "run-outside-runner".into(),
                format!("actor {actor} body runs without a runner decision to run it"));
        }
        let mut obl = inv.as_ref().and_then(|r| r.obl);
        let replay = inv.as_ref().map(|r| r.replay).unwrap_or(false);

        if replay
        {
            // which postponed delivery is this? every assignment consistent with the send order of each sender is
            // tracked; the order is broken only if none survives.
            let obls = &self.obls;
            let chosen = self.fifos.get_mut(&actor)
                .and_then(|f| f.step(|i| Self::readers_match(&obls[i], variant, readers).is_ok()));
            match chosen
            {
                Some(m) =>
                {
                    // Marks must stay consistent across alternative assignments: if the delivery consumed on this
                    // path was already marked as handled (on another path), mark an interchangeable one instead.
                    let mut m = m;
                    if self.obls[m].state != OState::Postponed
                    {
                        if let Some(alt) = self.obls.iter().position(|o| o.state == OState::Postponed && o.actor == actor
                            && Self::readers_match(o, variant, readers).is_ok())
                        {
                            m = alt;
                        }
                    }
                    obl = Some(m);
                }
                None =>
                {
                    let pending = self.fifos.get(&actor).map(|f| f.pending()).unwrap_or_default();
                    let anywhere = pending.iter().copied()
                        .find(|i| Self::readers_match(&self.obls[*i], variant, readers).is_ok());
                    match anywhere
                    {
                        Some(m) =>
                        {
                            let b = self.obls[m].clone();
                            let earlier = pending.iter().copied()
                                .find(|i| self.fifo_sender(*i) == self.fifo_sender(m) && self.obls[*i].seq < b.seq)
                                .map(|i| self.obls[i].clone());
                            let senders: std::collections::BTreeSet<_> = pending.iter().map(|i| self.fifo_sender(*i)).collect();
                            let same_sender_earlier = earlier.is_some();
                            self.viol("C12", "R-fifo",
                                format!("postponed-out-of-order:{}-before-{}:senders={}", kind_class(b.kind),
                                    earlier.as_ref().map(|a| kind_class(a.kind)).unwrap_or("?"), senders.len().min(2)),
                                format!("target {actor} handles {:?}/{:?} (sent by {:?}) before an earlier delivery of the \
                                    same sender {:?}; no assignment of runs to pending deliveries respects every \
                                    sender's order", b.kind, b.payload, b.creator, earlier.map(|a| (a.kind, a.payload, a.creator))));
                            // Two commands of one sender are also "commands queued by a system": replaying them in
                            // another order than queued breaks the first clause of C09 as well (seeded change r20-C09).
                            if same_sender_earlier
                            {
                                self.viol("C09", "R-fifo", "postponed-replayed-out-of-queue-order".to_string(),
                                    format!("target {actor}: postponed command {:?}/{:?} of {:?} is replayed before an earlier                                         postponed command of the same run", b.kind, b.payload, b.creator));
                            }
                            if let Some(f) = self.fifos.get_mut(&actor) { f.remove(m); }
                            obl = Some(m);
                        }
                        None =>
                        {
                            // nothing pending carries this data: judged by R-data below against the earliest delivery
                            obl = pending.first().copied();
                            if let (Some(m), Some(f)) = (obl, self.fifos.get_mut(&actor)) { f.remove(m); }
                        }
                    }
                }
            }
        }

        match obl
        {
            None =>
            {
                if decided_run
                {
                    self.viol("C02", "R-once", "run-without-obligation".into(),
                        format!("actor {actor} runs but no pending command / event / reaction accounts for it"));
                }
                self.frames.push(Frame{ id, obl: None, body_exited: false, sub_boundary: self.pos, cur_cmd: None, issued: 0, applied: 0 });
            }
            Some(i) =>
            {
                // in-line FIFO among obligations of one sender command sequence to this target
                if !replay && !self.obls[i].polled
                {
                    let o = self.obls[i].clone();
                    if let Some(earlier) = self.obls.iter().position(|x| {
                        x.actor == actor && x.creator.by == o.creator.by && x.creator.idx < o.creator.idx
                            && matches!(x.state, OState::Created | OState::Reached) && !x.polled && !x.optional
                    })
                    {
                        let e = self.obls[earlier].clone();
                        self.viol("C12", "R-fifo", "inline-out-of-order".into(),
                            format!("target {actor} handles {:?} of {:?} before earlier {:?} of {:?}", o.kind, o.creator, e.kind, e.creator));
                    }
                }
                // R-data
                if let Err((extra, msg)) = Self::readers_match(&self.obls[i], variant, readers)
                {
                    let o = self.obls[i].clone();
                    let pending_kinds: Vec<Kind> = self.obls.iter()
                        .filter(|x| x.actor == actor && matches!(x.state, OState::Postponed | OState::Reached))
                        .map(|x| x.kind).collect();
                    let prop = if extra { "C04" } else { "C03" };
                    let tag = if variant == Variant::ExclusiveFlush { ":reader=ExclusiveFlush" } else { "" };
                    self.viol(prop, "R-data",
                        format!("{}:{:?}:replay={replay}{tag}", if extra { "extra-data" } else { "wrong-or-missing-data" }, kind_class(o.kind)),
                        format!("actor {actor} run caused by {:?} (source {:?}, payload {:?}): {msg}; pending for this \
                            actor: {:?}", o.kind, o.source, o.payload, pending_kinds));
                }
                if readers.sys_twice
                {
                    self.viol("C04", "R-data", "system-event-taken-twice".into(),
                        format!("actor {actor}: a second SystemEvent::take in the same run returned a payload"));
                }
                self.obls[i].state = OState::Running;
                self.obls[i].run = Some(id);
                self.obls[i].run_at = self.pos;
                if self.obls[i].polled { self.out.polled_runs += 1; }
                self.frames.push(Frame{ id, obl: Some(i), body_exited: false, sub_boundary: self.pos, cur_cmd: None, issued: 0, applied: 0 });
            }
        }
        self.out.max_depth = self.out.max_depth.max(self.frames.len() as u32);
        if self.actors[actor as usize].once { self.actors[actor as usize].once_ran = true; }
    }

    fn on_body_exit(&mut self, id: RunId)
    {
        let Some(fid) = self.frames.last().map(|f| f.id) else { return };
        if fid != id
        {
            self.viol("*", "structure", "body-exit-mismatch".into(), format!("body exit of {:?} but innermost frame is {:?}", id, fid));
            self.desynced = true;
            return;
        }
        let pos = self.pos;
        let f = self.frames.last_mut().unwrap();
        f.body_exited = true;
        f.sub_boundary = pos;
        if let Some(i) = f.obl { self.obls[i].state = OState::Exited; }
        // event cleanup runs right after the body: a despawn reaction releases its handle here
        if let Some(i) = self.frames.last().and_then(|f| f.obl)
        {
            if self.obls[i].holds_group.is_some()
            {
                // released below through state Exited -> treated as not holding any more
                self.obls[i].holds_group = None;
                self.update_refcounts();
            }
        }
    }

    fn on_deferred_end(&mut self, id: RunId, live: &Live)
    {
        let ok = self.frames.last().map(|f| f.id == id).unwrap_or(false);
        if !ok
        {
            self.viol("C09", "R-order", "deferred-end-mismatch".into(),
                format!("end of {:?} reached while innermost frame is {:?}", id, self.frames.last().map(|f| f.id)));
            self.desynced = true;
            return;
        }
        let f = self.frames.last().unwrap().clone();
        if f.applied != f.issued
        {
            self.viol("C09", "R-order", "commands-lost".into(),
                format!("{:?} queued {} commands but {} were applied before its end marker", id, f.issued, f.applied));
        }
        self.check_boundary(f.sub_boundary, None, true);
        for p in self.payloads.values_mut() { p.boundary_passed = true; }
        self.check_live(live);
        self.frames.pop();
        if let Some(i) = f.obl { self.obls[i].state = OState::Done; }
        // one-off reactors despawn themselves and revoke their triggers right after their run
        let a = id.actor as usize;
        if self.actors[a].once
        {
            self.actors[a].alive = false;
            self.actors[a].killed = true;
            for r in self.regs.iter_mut() { if r.actor == id.actor { r.live = false; } }
            for o in self.obls.iter_mut()
            {
                if o.actor == id.actor && o.state == OState::Created && o.polled { o.state = OState::Cancelled; }
            }
        }
        self.update_refcounts();
        self.state_hash();
    }

    /// Deadline for polled reactions: everything that happened before `before` must have been reacted to by every
    /// registration that was live throughout.
    fn check_polled_deadline(&mut self, before: usize)
    {
        let mut missing: Vec<String> = Vec::new();
        for pi in 0..self.polled.len()
        {
            let p = self.polled[pi].clone();
            if p.closed || p.at >= before { continue; }
            match p.comp
            {
                Some(c) =>
                {
                    // no removal reader exists for this component type yet: the implementation has not looked at
                    // this removal, and a reader installed later (first registration) still sees it; it stays open so
                    // that a reactor registered between the removal and the first poll that can see it may react
                    if !self.removal_tracked[comp_idx(c)] { continue; }
                    for (ri, r) in self.regs.iter().enumerate()
                    {
                        if !r.live || r.since > p.at { continue; }
                        let ent_alive = self.ents[p.ent as usize].alive;
                        let m = r.trig == Trig::Removal(c) || (r.trig == Trig::EntityRemoval(c, p.ent) && ent_alive);
                        if !m { continue; }
                        if !self.actor_alive(r.actor) { continue; }
                        if p.reacted.contains(&ri) { continue; }
                        missing.push(format!("removal of {:?} from entity {} not reacted to by actor {} ({:?})", c, p.ent, r.actor, r.trig));
                    }
                }
                None =>
                {
                    for o in self.obls.iter()
                    {
                        if o.kind == Kind::Despawn && o.polled && o.state == OState::Created && !o.optional
                            && o.source == Some(Name::Ent(p.ent)) && o.created_at == p.at
                        {
                            missing.push(format!("despawn of entity {} not reacted to by actor {}", p.ent, o.actor));
                        }
                    }
                }
            }
            self.polled[pi].closed = true;
        }
        for m in missing
        {
            self.viol("C08", "R-polled", "missed-polled-reaction".into(), m);
        }
        // obligations that missed their deadline are reported once
        for o in self.obls.iter_mut()
        {
            if o.kind == Kind::Despawn && o.polled && o.state == OState::Created && o.created_at < before
            {
                o.state = OState::Cancelled;
            }
        }
        self.update_refcounts();
    }

    fn on_runner_exit(&mut self, target: Name, counter: u32)
    {
        let Some(inv) = self.runners.pop() else
        {
            self.viol("*", "structure", "runner-exit-unbalanced".into(), format!("runner exit for {:?}", target));
            return;
        };
        if inv.target != target
        {
            self.viol("*", "structure", "runner-exit-mismatch".into(), format!("runner exit {:?} vs {:?}", target, inv.target));
        }
        if counter == 0
        {
            // End of a tree: every removal / despawn that happened so far has been seen by a poll (each execution is
            // followed by a poll when its system is reinserted, and aborted commands poll too).
            let now = self.pos;
            self.check_polled_deadline(now);
            // end of a tree
            self.tree_polled_since_top = true;
            if !self.frames.is_empty()
            {
                self.viol("C02", "R-once", "tree-end-with-open-frames".into(), format!("tree ends with open frames {:?}", self.frames));
            }
            let since = self.root_sub_boundary;
            let exempt = self.root_cmd;
            // everything caused inside this tree must be finished (members of a top-level fire group not yet
            // reached are separate trees)
            self.check_tree_end(since, exempt);
        }
    }

    fn check_tree_end(&mut self, since: usize, exempt: Option<CmdId>)
    {
        let mut bad = Vec::new();
        for (i, o) in self.obls.iter().enumerate()
        {
            if o.created_at < since { continue; }
            if matches!(o.state, OState::Done | OState::Aborted | OState::Cancelled) { continue; }
            if matches!(o.state, OState::Created | OState::Scheduled) && (o.polled || o.optional || exempt == Some(o.creator)) { continue; }
            bad.push(i);
        }
        for i in bad
        {
            let o = self.obls[i].clone();
            self.obls[i].state = OState::Cancelled;
            let (prop, rule) = match o.state
            {
                OState::Created => match o.kind { Kind::Manual | Kind::SysEvent => ("C02", "R-once"), _ => ("C01", "R-dispatch") },
                _ => ("C02", "R-once"),
            };
            self.viol(prop, rule, format!("unfinished-at-tree-end:{:?}:{:?}", o.state, kind_class(o.kind)),
                format!("the tree ended but obligation actor={} kind={:?} payload={:?} created by {:?} is still {:?}",
                    o.actor, o.kind, o.payload, o.creator, o.state));
            // a reaction command that was applied but never handed to the runner (no decision was ever taken on
            // it): the delivery was lost in the dispatch layer - a matching live registration was skipped
            if o.state == OState::Reached && !matches!(o.kind, Kind::Manual | Kind::SysEvent) && self.actor_alive(o.actor)
            {
                self.viol("C01", "R-dispatch", format!("applied-never-handed-to-runner:{:?}", kind_class(o.kind)),
                    format!("the reaction command for actor={} kind={:?} created by {:?} was applied but the runner was \
                        never asked to run it", o.actor, o.kind, o.creator));
            }
        }
        self.update_refcounts();
    }

    fn on_drop(&mut self, p: PayloadId)
    {
        let Some(info) = self.payloads.get(&p).cloned() else
        {
            if self.announced.contains(&p) && !self.teardown
            {
                // dropped between the call that sends it and the application of its command (e.g. the target is
                // already gone at the call): judged when the command takes effect
                self.dropped_before_apply.insert(p);
                return;
            }
            if self.announced.contains(&p) { return; }
            self.viol("C05", "R-release", "drop-unknown".into(), format!("payload {p} dropped but never sent"));
            return;
        };
        if self.teardown
        {
            if info.dropped == 0
            {
                self.viol("C05", "R-release", format!("leak:{:?}:listeners={}", kind_class(info.kind), info.obls.len().min(2)),
                    format!("payload {p} ({:?}) was only released when the world was torn down", info.kind));
            }
            self.payloads.get_mut(&p).unwrap().dropped += 1;
            return;
        }
        if info.dropped > 0
        {
            self.viol("C05", "R-release", "double-drop".into(), format!("payload {p} dropped twice"));
        }
        // A system that does not take its system events cannot tell us which of several pending system events a run
        // was for; the payload that is released tells us now. Re-assign marks among such interchangeable deliveries.
        for &i in info.obls.iter()
        {
            let o = self.obls[i].clone();
            if o.kind != Kind::SysEvent || !matches!(o.state, OState::Postponed) { continue; }
            if self.actors.get(o.actor as usize).map(|a| a.variant) != Some(Variant::NoTake) { continue; }
            let swap = self.obls.iter().position(|x| x.actor == o.actor && x.kind == Kind::SysEvent
                && matches!(x.state, OState::Running | OState::Exited | OState::Done)
                && x.payload.map(|q| q != p && self.payloads.get(&q).map(|pi| pi.dropped == 0).unwrap_or(false)).unwrap_or(false));
            if let Some(j) = swap
            {
                let (si, sj) = (self.obls[i].state, self.obls[j].state);
                self.obls[i].state = sj;
                self.obls[j].state = si;
                let (ri, rj) = (self.obls[i].run, self.obls[j].run);
                self.obls[i].run = rj;
                self.obls[j].run = ri;
                // frames refer to obligations by index
                for f in self.frames.iter_mut()
                {
                    if f.obl == Some(j) { f.obl = Some(i); } else if f.obl == Some(i) { f.obl = Some(j); }
                }
            }
        }
        // never while a scheduled reader has yet to run
        for &i in info.obls.iter()
        {
            let o = &self.obls[i];
            let ok = match o.state
            {
                OState::Done | OState::Aborted | OState::Cancelled | OState::Exited => true,
                OState::Running => o.kind == Kind::SysEvent,
                OState::Created | OState::Scheduled | OState::Reached | OState::Postponed => !self.actor_alive(o.actor) || o.optional,
            };
            if !ok
            {
                let o = o.clone();
                let tag = if self.actors.get(o.actor as usize).map(|a| a.variant) == Some(Variant::ExclusiveFlush) { ":reader=ExclusiveFlush" } else { "" };
                self.viol("C05", "R-release", format!("early-drop:{:?}:{:?}{tag}", kind_class(o.kind), o.state),
                    format!("payload {p} dropped while its reader actor {} ({:?}) has yet to run / is running", o.actor, o.state));
            }
        }
        // nobody listens: immediately
        if info.obls.is_empty() && info.boundary_passed
        {
            self.viol("C05", "R-release", format!("late-drop-no-listener:{:?}", kind_class(info.kind)),
                format!("payload {p} has no reader but was not dropped before the next command"));
        }
        self.payloads.get_mut(&p).unwrap().dropped += 1;
    }

    fn on_quiescent(&mut self, snap: &Snap, live: &Live)
    {
        if !self.frames.is_empty() || !self.runners.is_empty()
        {
            self.viol("C02", "R-once", "quiescent-with-open-frames".into(),
                format!("flush returned with open frames {:?} / runners {}", self.frames, self.runners.len()));
            self.frames.clear();
            self.runners.clear();
        }
        // App::update / explicit Poll: polled deadline
        let explicit_poll = matches!(self.last_top_op, Some(Op::Poll));
        if self.cfg.update_after_top || explicit_poll
        {
            self.check_polled_deadline(self.pos);
        }
        // R-once: nothing non-polled may be pending
        let since = self.root_cmd_pos;
        self.check_tree_end(since, None);
        // polled reactions that a poll scheduled must have run by now
        let stuck: Vec<usize> = self.obls.iter().enumerate().filter(|(_, o)| o.state == OState::Scheduled).map(|(i, _)| i).collect();
        for i in stuck
        {
            let o = self.obls[i].clone();
            self.obls[i].state = OState::Cancelled;
            self.viol("C08", "R-polled", format!("scheduled-never-ran:{}", kind_class(o.kind)),
                format!("the {:?} reaction of actor {} for {:?} was scheduled by a poll but never ran", o.kind, o.actor, o.source));
        }
        self.check_live(live);

        // R-release: every payload sent so far is gone
        let undropped: Vec<(PayloadId, Kind, usize)> = self.payloads.iter()
            .filter(|(_, i)| i.dropped == 0 && !i.leaked)
            .map(|(p, i)| (*p, i.kind, i.obls.len()))
            .collect();
        for (p, kind, n) in undropped
        {
            self.payloads.get_mut(&p).unwrap().leaked = true;
            self.viol("C05", "R-release", format!("alive-after-tree:{:?}:listeners={}", kind_class(kind), n.min(2)),
                format!("payload {p} ({:?}, {n} readers) is still alive after the reaction tree ended", kind));
        }
        if snap.data_entities != 0 || snap.sys_event_data != 0
        {
            self.viol("C05", "R-release", "bookkeeping-entity-outlives-tree".into(),
                format!("{} event data entities and {} system event data entities outlive the tree", snap.data_entities, snap.sys_event_data));
        }

        // R-quiet
        let mut residue = Vec::new();
        if snap.counter != 0 { residue.push(format!("tree counter {}", snap.counter)); }
        if snap.buffered != 0 { residue.push(format!("{} buffered commands", snap.buffered)); }
        if snap.prepared != [0; 4] { residue.push(format!("prepared metadata {:?}", snap.prepared)); }
        if snap.reacting != [false; 4] { residue.push(format!("reading flags {:?}", snap.reacting)); }
        if snap.despawn_handle_held { residue.push("despawn handle held".into()); }
        if snap.cache_scratch != 0 { residue.push(format!("{} scratch reaction commands", snap.cache_scratch)); }
        for (n, has) in snap.syscommands.iter()
        {
            if !*has { residue.push(format!("system command {:?} has no callback", n)); }
        }
        // when the flush ended with the end of a tree, every signal sent in it has been collected
        if self.last_event_was_root_exit
        {
            if snap.auto_despawn_pending != 0 { residue.push(format!("auto-despawn {} signals not collected", snap.auto_despawn_pending)); }
            if snap.despawn_tracker_pending != 0 { residue.push(format!("despawn-notices {} not processed", snap.despawn_tracker_pending)); }
        }
        if !residue.is_empty()
        {
            let sig = residue.iter().map(|s| s.split(' ').next().unwrap_or("").to_string()).collect::<Vec<_>>().join("+");
            self.viol("C11", "R-quiet", format!("residue:{sig}"), format!("framework not quiescent: {}", residue.join(", ")));
        }

        // Table cross-check: the implementation's registration tables equal the abstract ones (as multisets).
        let mut abs: Vec<(String, Name)> = Vec::new();
        for r in self.regs.iter().filter(|r| r.live)
        {
            abs.push((trig_key(&r.trig), Name::Actor(r.actor)));
        }
        // a despawn that no poll has seen yet still sits in the implementation's despawn table
        for o in self.obls.iter()
        {
            if o.kind == Kind::Despawn && o.polled && o.state == OState::Created
            {
                if let Some(Name::Ent(e)) = o.source { abs.push((trig_key(&Trig::Despawn(e)), Name::Actor(o.actor))); }
            }
        }
        abs.sort();
        let mut imp: Vec<(String, Name)> = Vec::new();
        for (kind, ty, ent, reactors) in snap.tables.iter()
        {
            for (n, _) in reactors.iter()
            {
                imp.push((format!("{}:{}:{}", kind, ty.clone().unwrap_or_default(),
                    ent.map(|e| format!("{:?}", e)).unwrap_or_default()), *n));
            }
        }
        imp.sort();
        if abs != imp && !self.desynced
        {
            // a table that differs from the spec means inexact dispatch (C01); if a revocation was applied since the
            // tables last agreed, revocation was not complete / local (C06)
            let kind = if imp.len() > abs.len() { "extra" } else if imp.len() < abs.len() { "missing" } else { "different" };
            if self.revoked_since_table_ok
            {
                self.viol("C06", "R-table", format!("table-mismatch-after-revoke:{kind}"),
                    format!("registration tables differ after a revocation: spec {:?} implementation {:?}", abs, imp));
            }
            let prop = "C01";
            self.viol(prop, "R-table", format!("table-mismatch:{}", if imp.len() > abs.len() { "extra" } else if imp.len() < abs.len() { "missing" } else { "different" }),
                format!("registration tables differ: spec {:?} implementation {:?}", abs, imp));
        }
        if abs == imp { self.revoked_since_table_ok = false; }
        self.state_hash();
        self.root_sub_boundary = self.pos;
    }

    pub fn step(&mut self, pos: usize, ev: &TEv)
    {
        self.pos = pos;
        self.out.transitions += 1;
        if !matches!(ev, TEv::Quiescent{ .. })
        {
            self.last_event_was_root_exit = matches!(ev, TEv::Hook(Hook::RunnerExit{ counter: 0, .. }));
        }
        if self.desynced { if let TEv::Panic(m) = ev { self.viol("*", "panic", "panic".into(), m.clone()); } return; }
        if !matches!(ev, TEv::CanaryDrop(_) | TEv::Drop(_) | TEv::Hook(Hook::Gc)) { self.gc_open = false; }
        match ev
        {
            TEv::Top{ cmd, issued } => { if let Some(p) = issued.payload { self.announced.insert(p); } self.issued.insert(*cmd, issued.clone()); }
            TEv::Issue{ cmd, issued } =>
            {
                if let Some(p) = issued.payload { self.announced.insert(p); }
                self.on_issue_time(issued);
                self.issued.insert(*cmd, issued.clone());
                if let Some(f) = self.frames.last_mut() { f.issued += 1; }
            }
            TEv::Applied{ cmd, live } => self.on_applied(*cmd, live),
            TEv::RunEnter{ id, local_ctr, closure_ctr, variant, readers } =>
                self.on_run_enter(*id, *local_ctr, *closure_ctr, *variant, readers),
            TEv::BodyExit{ id } => self.on_body_exit(*id),
            TEv::DeferredEnd{ id, live } => self.on_deferred_end(*id, live),
            TEv::Hook(h) => match h
            {
                Hook::CommandApply{ kind, target, source, .. } => self.on_command_apply(*kind, *target, *source),
                Hook::Scheduled{ kind, target, source } => self.on_scheduled(*kind, *target, *source),
                Hook::RunnerEnter{ target, counter } => self.on_runner_enter(*target, *counter),
                Hook::RunnerDecision{ target, decision } => self.on_decision(*target, *decision),
                Hook::RunnerBodyDone{ .. } => {}
                Hook::Gc => { self.gc_point(); self.gc_open = true; }
                Hook::RunnerReinsert{ target, reinserted } =>
                {
                    let pos = self.pos;
                    if let Some(r) = self.runners.last_mut() { r.reinsert_pos = Some(pos); }
                    if let Name::Actor(a) = target
                    {
                        if !*reinserted
                        {
                            // the callback was dropped: the system's entity is gone
                            if self.actor_alive(*a) && !self.actors[*a as usize].doomed
                            {
                                self.viol("C07", "R-life", "callback-dropped-for-live-system".into(),
                                    format!("actor {a}'s system was dropped after its run although it should exist"));
                            }
                        }
                    }
                }
                Hook::RunnerReplay{ target, .. } =>
                {
                    if let Name::Actor(a) = target { self.pending = Pending::Replay(*a); }
                }
                Hook::RunnerDiscard{ target } =>
                {
                    if let Name::Actor(a) = target
                    {
                        self.pending = Pending::Discard(*a);
                        // a buffered command is dropped at the root: legitimate only for a dead target
                        let obl = self.obls.iter().position(|o| o.state == OState::Postponed && o.actor == *a);
                        if let Some(i) = obl
                        {
                            if self.actor_alive(*a)
                            {
                                self.viol("C02", "R-once", "discarded-live-target".into(),
                                    format!("postponed command for live actor {a} discarded at the end of the tree"));
                                // ... and it never "runs immediately" once the busy execution has completed
                                self.viol("C09", "R-window", "postponed-discarded".into(),
                                    format!("postponed command for live actor {a} was discarded instead of being replayed after the execution that blocked it"));
                            }
                            self.obls[i].state = OState::Aborted;
                        }
                        self.pending = Pending::None;
                    }
                }
                Hook::RunnerExit{ target, counter } => self.on_runner_exit(*target, *counter),
            },
            TEv::Drop(p) => self.on_drop(*p),
            TEv::CanaryDrop(a) =>
            {
                if !self.teardown
                {
                    if let Some(x) = self.actors.get(*a as usize).cloned()
                    {
                        if x.alive && !x.doomed && !x.killed
                        {
                            let prop = if x.once { "C15" } else { "C07" };
                            self.viol(prop, "R-life", "state-dropped-while-live".into(),
                                format!("actor {a}'s system state was dropped although the reactor should exist"));
                        }
                    }
                }
                if let Some(x) = self.actors.get_mut(*a as usize) { x.canary_dropped = true; }
                // signal clones captured by the closure are released with it
                if !self.teardown
                {
                    let owned: Vec<EntId> = self.cfg.actor_signals.iter().filter(|(x, _)| x == a).map(|(_, e)| *e).collect();
                    for e in owned
                    {
                        let x = &mut self.ents[e as usize];
                        if x.actor_signals > 0
                        {
                            x.actor_signals -= 1;
                            if x.actor_signals == 0 && !x.signal && x.alive { x.doomed = true; }
                        }
                    }
                    if self.gc_open { self.gc_point(); }
                }
            }
            TEv::Quiescent{ snap, live } => self.on_quiescent(snap, live),
            TEv::Value{ what, value } =>
            {
                if what == "state-built"
                {
                    // every registered system builds its state once: never more constructions than systems
                    self.state_builds += 1;
                    let known = self.actors.len() as u32;
                    if self.state_builds > known
                    {
                        self.viol("C13", "R-state", "state-built-more-than-once".into(),
                            format!("system state was constructed {} times for at most {} registered systems", self.state_builds, known));
                    }
                }
                if let Some(a) = what.strip_prefix("state-ordinal:")
                {
                    if let Ok(a) = a.parse::<ActorId>()
                    {
                        match self.state_ordinals.get(&a).copied()
                        {
                            None => { self.state_ordinals.insert(a, *value); }
                            Some(o) if o != *value =>
                            {
                                self.viol("C13", "R-state", "state-recreated".into(),
                                    format!("actor {a} runs on system state built as construction #{value}, its earlier runs used construction #{o}"));
                                self.state_ordinals.insert(a, *value);
                            }
                            _ => {}
                        }
                    }
                }
                if what == "app-reactor-not-spawned"
                {
                    self.viol("C13", "R-state", "registration-without-own-system".into(),
                        "a reactor registered with App::add_reactor did not get a system of its own".into());
                }
                if let Some(which) = what.strip_prefix("reader-api-inconsistent:")
                {
                    self.viol("C03", "R-data", format!("reader-api-inconsistent:{which}"),
                        format!("the accessor forms of {which} disagree (is_empty / entity / read vs try_read / get)"));
                }
                if what == "teardown"
                {
                    self.teardown = true;
                    // dead reactors must have dropped their state
                    for i in 0..self.actors.len()
                    {
                        let a = self.actors[i].clone();
                        if !a.alive && !a.canary_dropped && a.sampled_from != usize::MAX
                        {
                            let prop = if a.once { "C15" } else { "C07" };
                            self.viol(prop, "R-life", "state-not-dropped".into(),
                                format!("actor {i} is gone but its system state / captured values were never dropped"));
                        }
                    }
                }
            }
            TEv::Panic(m) => { self.viol("*", "panic", format!("panic:{}", m.chars().take(40).collect::<String>()), m.clone()); }
        }
    }

    pub fn finish(mut self, trace: &[TEv]) -> MonitorOut
    {
        // canonical outcome: the sequence of runs with what they read
        let mut h = DefaultHasher::new();
        for ev in trace
        {
            match ev
            {
                TEv::RunEnter{ id, readers, .. } => { (0u8, id, readers).hash(&mut h); }
                TEv::Applied{ cmd, .. } => { (1u8, cmd).hash(&mut h); }
                TEv::DeferredEnd{ id, .. } => { (2u8, id).hash(&mut h); }
                TEv::Drop(p) => { (3u8, p).hash(&mut h); }
                TEv::Hook(Hook::RunnerDecision{ target, decision }) => { (4u8, target, decision).hash(&mut h); }
                TEv::Quiescent{ snap, .. } => { (5u8, &snap.tables, snap.entity_count).hash(&mut h); }
                TEv::Top{ issued, .. } => { (6u8, issued).hash(&mut h); }
                TEv::Issue{ issued, .. } => { (7u8, issued).hash(&mut h); }
                _ => {}
            }
        }
        self.out.outcome_hash = h.finish();
        self.out
    }
}

/// Coarse class of a kind (component type erased) for violation signatures.
pub fn kind_class(k: Kind) -> &'static str
{
    match k
    {
        Kind::Manual => "Manual",
        Kind::SysEvent => "SysEvent",
        Kind::Resource => "Resource",
        Kind::Insertion(_) => "Insertion",
        Kind::Mutation(_) => "Mutation",
        Kind::Removal(_) => "Removal",
        Kind::Despawn => "Despawn",
        Kind::EntityEvent => "EntityEvent",
        Kind::Broadcast => "Broadcast",
        Kind::Unknown => "Unknown",
    }
}

fn trig_matches_kind(t: &Trig, k: Kind) -> bool
{
    match (t, k)
    {
        (Trig::Broadcast(_), Kind::Broadcast) => true,
        (Trig::EntityEvent(_, _), Kind::EntityEvent) | (Trig::AnyEntityEvent(_), Kind::EntityEvent) => true,
        (Trig::ResMut, Kind::Resource) => true,
        (Trig::Insertion(c), Kind::Insertion(k)) | (Trig::EntityInsertion(c, _), Kind::Insertion(k)) => *c == k,
        (Trig::Mutation(c), Kind::Mutation(k)) | (Trig::EntityMutation(c, _), Kind::Mutation(k)) => *c == k,
        (Trig::Removal(c), Kind::Removal(k)) | (Trig::EntityRemoval(c, _), Kind::Removal(k)) => *c == k,
        (Trig::Despawn(_), Kind::Despawn) => true,
        _ => false,
    }
}

/// Key of a trigger in the same format the snapshot tables use.
fn trig_key(t: &Trig) -> String
{
    let c = |c: &Comp| match c { Comp::A => "CA", Comp::B => "CB" };
    let e = |e: &Ev| match e { Ev::A => "EvA", Ev::B => "EvB" };
    match t
    {
        Trig::Broadcast(x) => format!("Broadcast:{}:", e(x)),
        Trig::EntityEvent(x, n) => format!("EntityEvent:{}:{:?}", e(x), Name::Ent(*n)),
        Trig::AnyEntityEvent(x) => format!("AnyEntityEvent:{}:", e(x)),
        Trig::ResMut => "ResourceMutation:RA:".to_string(),
        Trig::Insertion(x) => format!("ComponentInsertion:{}:", c(x)),
        Trig::Mutation(x) => format!("ComponentMutation:{}:", c(x)),
        Trig::Removal(x) => format!("ComponentRemoval:{}:", c(x)),
        Trig::EntityInsertion(x, n) => format!("EntityInsertion:{}:{:?}", c(x), Name::Ent(*n)),
        Trig::EntityMutation(x, n) => format!("EntityMutation:{}:{:?}", c(x), Name::Ent(*n)),
        Trig::EntityRemoval(x, n) => format!("EntityRemoval:{}:{:?}", c(x), Name::Ent(*n)),
        Trig::Despawn(n) => format!("Despawn::{:?}", Name::Ent(*n)),
    }
}

#[allow(dead_code)]
fn _unused(e: Ev) -> usize { ev_idx(e) }

/// Runs the monitor over a complete trace.
pub fn run_monitor(cfg: &Config, trace: &[TEv]) -> MonitorOut
{
    let mut m = Monitor::new(cfg);
    for (i, ev) in trace.iter().enumerate() { m.step(i, ev); }
    let mut out = m.finish(trace);
    if !cfg.only_props.is_empty()
    {
        out.violations.retain(|v| v.property == "*" || cfg.only_props.contains(&v.property.as_str()));
    }
    out
}
