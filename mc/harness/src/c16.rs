//! C16: world reactors -- shared system, per-entity local data.

use crate::es::*;
use crate::universe::{EvA, EvB, Pl, CA, RA};
use bevy::prelude::*;
use bevy_cobweb::prelude::*;
use bevy_cobweb::verif as hooks;
use std::cell::RefCell;

pub const N_ENTS: usize = 2;

#[derive(Clone, Copy, Debug, PartialEq, Eq, Hash, PartialOrd, Ord)]
pub enum Which { First, Second, Both }

#[derive(Clone, Copy, Debug, PartialEq, Eq, Hash, PartialOrd, Ord)]
pub enum Op16
{
    /// Add entity `e` to entity world reactor `r` (1 or 2) with fresh local data.
    Add(u8, u8),
    /// Remove a subset of `e`'s triggers from reactor `r`.
    Remove(u8, u8, Which),
    /// One removal bundle spanning both entities: reactor `r`, the bundle names entity `.1` first and the other entity
    /// second; `Which::First` = the first trigger kind of the reactor for both entities, `Second` = the second kind,
    /// `Both` = every trigger of both entities.
    RemoveMulti(u8, u8, Which),
    FireMutation(u8),
    FireEntityEvent(u8),
    FireInsertion(u8),
    FireBroadcast,
    Despawn(u8),
    /// World reactor: add (broadcast, entity_mutation(e)) triggers.
    WAdd(u8),
    WRemoveBroadcast,
    WRemoveEntityMutation(u8),
    WRun,
    /// Second world reactor (registered with *starting triggers* broadcast<EvB> + resource mutation, before the
    /// plugin is added) and a plain reactor added with `App::add_reactor(broadcast<EvB>)`.
    FireBroadcastB,
    FireResource,
    W2AddB,
    W2RemoveB,
    W2RemoveResource,
    /// Third world reactor: type-wide component triggers (starting trigger insertion<CA>, addable mutation<CA>), which
    /// share one table entry per component type.
    W3AddMutation,
    W3RemoveInsertion,
    W3RemoveMutation,
    /// Fourth world reactor: `any_entity_event<EvA>` - the same event type that the first world reactor listens to as
    /// a broadcast and the first entity world reactor as an entity-scoped event (three tables keyed by one type).
    W4Add,
    W4Remove,
    /// Fifth world reactor: `despawn(e)` triggers (at most one registration per entity at a time). The despawn operation
    /// polls, so the reaction belongs to it.
    W5Add(u8),
    W5Remove(u8),
    /// An unrelated plain component is inserted on entity `e` (it moves to an archetype that did not exist when the
    /// reactor systems first ran). Once per entity.
    Tag(u8),
}

pub fn all_ops16() -> Vec<Op16>
{
    let mut v = Vec::new();
    for e in 0..N_ENTS as u8
    {
        for r in 1..=2u8
        {
            v.push(Op16::Add(r, e));
            for w in [Which::First, Which::Second, Which::Both] { v.push(Op16::Remove(r, e, w)); }
            for w in [Which::First, Which::Second, Which::Both] { v.push(Op16::RemoveMulti(r, e, w)); }
        }
        v.push(Op16::FireMutation(e));
        v.push(Op16::FireEntityEvent(e));
        v.push(Op16::FireInsertion(e));
        v.push(Op16::Despawn(e));
        v.push(Op16::WAdd(e));
        v.push(Op16::WRemoveEntityMutation(e));
        v.push(Op16::Tag(e));
        v.push(Op16::W5Add(e));
        v.push(Op16::W5Remove(e));
    }
    v.push(Op16::FireBroadcast);
    v.push(Op16::WRemoveBroadcast);
    v.push(Op16::WRun);
    v.push(Op16::FireBroadcastB);
    v.push(Op16::FireResource);
    v.push(Op16::W2AddB);
    v.push(Op16::W2RemoveB);
    v.push(Op16::W2RemoveResource);
    v.push(Op16::W3AddMutation);
    v.push(Op16::W3RemoveInsertion);
    v.push(Op16::W3RemoveMutation);
    v.push(Op16::W4Add);
    v.push(Op16::W4Remove);
    v
}

/// What a reactor run reported.
#[derive(Clone, Debug, PartialEq, Eq, Hash, PartialOrd, Ord)]
pub enum Rec16
{
    /// (reactor 1|2, entity index, local data value seen)
    Entity(u8, i32, u32),
    /// World reactor run: which reader had data: 0 none (manual), 1 broadcast, 2 mutation(entity index)
    World(u8, i32),
    /// Second world reactor: 1 broadcast<EvB>, 2 resource mutation, 0 nothing readable
    World2(u8),
    /// The plain app-level reactor (broadcast<EvB>): payload id read
    Plain(u32),
    /// Third world reactor: 1 insertion / 2 mutation (entity index), 0 nothing readable
    World3(u8, i32),
    /// Fourth world reactor: entity index of the entity event it read (-1: nothing readable)
    World4(i32),
    /// Fifth world reactor: entity index of the despawn it read (-1: nothing readable)
    World5(i32),
}

thread_local!
{
    static LOG: RefCell<Vec<Rec16>> = RefCell::new(Vec::new());
    static ENTS: RefCell<Vec<Entity>> = RefCell::new(Vec::new());
}

fn ent_index(e: Entity) -> i32
{
    ENTS.with(|v| v.borrow().iter().position(|x| *x == e).map(|i| i as i32).unwrap_or(-1))
}

struct ER1;
impl EntityWorldReactor for ER1
{
    type Triggers = (EntityMutationTrigger<CA>, EntityEventTrigger<EvA>);
    type Local = u32;
    fn reactor(self) -> SystemCommandCallback
    {
        SystemCommandCallback::new(|mut local: EntityLocal<ER1>| {
            let (e, d) = local.get_mut();
            LOG.with(|l| l.borrow_mut().push(Rec16::Entity(1, ent_index(e), *d)));
            *d += 1;
        })
    }
}

struct ER2;
impl EntityWorldReactor for ER2
{
    type Triggers = (EntityMutationTrigger<CA>, EntityInsertionTrigger<CA>);
    type Local = u32;
    fn reactor(self) -> SystemCommandCallback
    {
        SystemCommandCallback::new(|mut local: EntityLocal<ER2>| {
            // every accessor form agrees
            let e0 = local.entity();
            let (e1, d1) = { let (e, d) = local.get(); (e, *d) };
            let (e, d) = local.get_mut();
            assert!(e0 == e1 && e1 == e && d1 == *d, "EntityLocal accessors disagree");
            LOG.with(|l| l.borrow_mut().push(Rec16::Entity(2, ent_index(e), *d)));
            *d += 1;
        })
    }
}

struct WR;
impl WorldReactor for WR
{
    type StartingTriggers = ();
    type Triggers = (BroadcastTrigger<EvA>, EntityMutationTrigger<CA>);
    fn reactor(self) -> SystemCommandCallback
    {
        SystemCommandCallback::new(|b: BroadcastEvent<EvA>, m: MutationEvent<CA>| {
            let rec = if b.try_read().is_ok() { Rec16::World(1, -1) }
                else if let Ok(e) = m.get() { Rec16::World(2, ent_index(e)) }
                else { Rec16::World(0, -1) };
            LOG.with(|l| l.borrow_mut().push(rec));
        })
    }
}

struct WR2;
impl WorldReactor for WR2
{
    type StartingTriggers = (BroadcastTrigger<EvB>, ResourceMutationTrigger<RA>);
    type Triggers = BroadcastTrigger<EvB>;
    fn reactor(self) -> SystemCommandCallback
    {
        SystemCommandCallback::new(|b: BroadcastEvent<EvB>| {
            // a resource mutation carries no data: a run without a readable broadcast is the resource reaction
            let rec = if b.try_read().is_ok() { Rec16::World2(1) } else { Rec16::World2(2) };
            LOG.with(|l| l.borrow_mut().push(rec));
        })
    }
}

struct WR3;
impl WorldReactor for WR3
{
    type StartingTriggers = InsertionTrigger<CA>;
    type Triggers = MutationTrigger<CA>;
    fn reactor(self) -> SystemCommandCallback
    {
        SystemCommandCallback::new(|i: InsertionEvent<CA>, m: MutationEvent<CA>| {
            let rec = if let Ok(e) = i.get() { Rec16::World3(1, ent_index(e)) }
                else if let Ok(e) = m.get() { Rec16::World3(2, ent_index(e)) }
                else { Rec16::World3(0, -1) };
            LOG.with(|l| l.borrow_mut().push(rec));
        })
    }
}

#[derive(Component)]
struct Tag16;

struct WR5;
impl WorldReactor for WR5
{
    type StartingTriggers = ();
    type Triggers = DespawnTrigger;
    fn reactor(self) -> SystemCommandCallback
    {
        SystemCommandCallback::new(|d: DespawnEvent| {
            let rec = if let Ok(e) = d.get() { Rec16::World5(ent_index(e)) } else { Rec16::World5(-1) };
            LOG.with(|l| l.borrow_mut().push(rec));
        })
    }
}

struct WR4;
impl WorldReactor for WR4
{
    type StartingTriggers = ();
    type Triggers = AnyEntityEventTrigger<EvA>;
    fn reactor(self) -> SystemCommandCallback
    {
        SystemCommandCallback::new(|ev: EntityEvent<EvA>| {
            let rec = if let Ok((e, _)) = ev.try_read() { Rec16::World4(ent_index(e)) } else { Rec16::World4(-1) };
            LOG.with(|l| l.borrow_mut().push(rec));
        })
    }
}

fn plain_reactor(b: BroadcastEvent<EvB>)
{
    let p = b.try_read().map(|e| e.0.0).unwrap_or(u32::MAX);
    LOG.with(|l| l.borrow_mut().push(Rec16::Plain(p)));
}

//-------------------------------------------------------------------------------------------------------------------
// reference model

#[derive(Clone, Debug, Default, PartialEq, Eq, Hash)]
pub struct Model16
{
    pub alive: [bool; N_ENTS],
    pub has_comp: [bool; N_ENTS],
    /// registrations of reactor r (index r-1) on entity e: [first trigger count, second trigger count]
    pub regs: [[[u8; 2]; N_ENTS]; 2],
    pub local: [[Option<u32>; N_ENTS]; 2],
    /// the entity carries the entity-reactors bookkeeping component (some entity-scoped trigger was registered once)
    pub tracked: [bool; N_ENTS],
    pub w_broadcast: u8,
    pub w_entmut: [u8; N_ENTS],
    pub adds: u32,
    pub w2_b: u8,
    pub w2_res: u8,
    pub payloads: u32,
    pub w3_ins: u8,
    pub w3_mut: u8,
    pub w4_any: u8,
    pub tagged: [bool; N_ENTS],
    pub w5: [u8; N_ENTS],
    /// The entity carries the despawn-tracker bookkeeping component (a despawn trigger was registered for it once): kept
    /// in the state so that "registered and revoked" is not merged with "never registered".
    pub dtracked: [bool; N_ENTS],
}

impl Model16
{
    pub fn new() -> Self { Model16{ alive: [true; N_ENTS], has_comp: [true; N_ENTS], w2_b: 1, w2_res: 1, w3_ins: 1, ..Default::default() } }

    /// Applies an op; returns the expected run records (as a sorted multiset).
    pub fn apply(&mut self, op: Op16) -> Vec<Rec16>
    {
        let mut out = Vec::new();
        match op
        {
            Op16::Add(r, e) =>
            {
                let (ri, ei) = ((r - 1) as usize, e as usize);
                self.adds += 1;
                if self.alive[ei]
                {
                    self.local[ri][ei] = Some(100 * self.adds);
                    self.regs[ri][ei][0] += 1;
                    self.regs[ri][ei][1] += 1;
                    self.tracked[ei] = true;
                }
            }
            Op16::Remove(r, e, w) =>
            {
                let (ri, ei) = ((r - 1) as usize, e as usize);
                if self.alive[ei]
                {
                    if matches!(w, Which::First | Which::Both) { self.regs[ri][ei][0] = 0; }
                    if matches!(w, Which::Second | Which::Both) { self.regs[ri][ei][1] = 0; }
                    if self.tracked[ei] && self.regs[ri][ei] == [0, 0] { self.local[ri][ei] = None; }
                }
            }
            Op16::RemoveMulti(r, e, w) =>
            {
                // same as removing the named triggers of each entity in turn (a dead entity is skipped)
                for ent in [e, 1 - e] { let _ = self.apply(Op16::Remove(r, ent, w)); }
            }
            Op16::FireMutation(e) =>
            {
                let ei = e as usize;
                if self.alive[ei] && self.has_comp[ei]
                {
                    for ri in 0..2
                    {
                        for _ in 0..self.regs[ri][ei][0]
                        {
                            let d = self.local[ri][ei].unwrap_or(u32::MAX);
                            out.push(Rec16::Entity(ri as u8 + 1, ei as i32, d));
                            if let Some(x) = self.local[ri][ei].as_mut() { *x += 1; }
                        }
                    }
                    for _ in 0..self.w_entmut[ei] { out.push(Rec16::World(2, ei as i32)); }
                    for _ in 0..self.w3_mut { out.push(Rec16::World3(2, ei as i32)); }
                }
            }
            Op16::FireEntityEvent(e) =>
            {
                let ei = e as usize;
                self.payloads += 1;
                if self.alive[ei]
                {
                    for _ in 0..self.regs[0][ei][1]
                    {
                        let d = self.local[0][ei].unwrap_or(u32::MAX);
                        out.push(Rec16::Entity(1, ei as i32, d));
                        if let Some(x) = self.local[0][ei].as_mut() { *x += 1; }
                    }
                    for _ in 0..self.w4_any { out.push(Rec16::World4(ei as i32)); }
                }
            }
            Op16::FireInsertion(e) =>
            {
                let ei = e as usize;
                if self.alive[ei]
                {
                    self.has_comp[ei] = true;
                    for _ in 0..self.w3_ins { out.push(Rec16::World3(1, ei as i32)); }
                    for _ in 0..self.regs[1][ei][1]
                    {
                        let d = self.local[1][ei].unwrap_or(u32::MAX);
                        out.push(Rec16::Entity(2, ei as i32, d));
                        if let Some(x) = self.local[1][ei].as_mut() { *x += 1; }
                    }
                }
            }
            Op16::FireBroadcast => { self.payloads += 1; for _ in 0..self.w_broadcast { out.push(Rec16::World(1, -1)); } }
            Op16::FireBroadcastB =>
            {
                self.payloads += 1;
                for _ in 0..self.w2_b { out.push(Rec16::World2(1)); }
                out.push(Rec16::Plain(self.payloads));
            }
            Op16::FireResource => { for _ in 0..self.w2_res { out.push(Rec16::World2(2)); } }
            Op16::W2AddB => { self.w2_b += 1; }
            Op16::W2RemoveB => { if self.w2_b > 0 { self.w2_b -= 1; } }
            Op16::W2RemoveResource => { if self.w2_res > 0 { self.w2_res -= 1; } }
            Op16::W3AddMutation => { self.w3_mut += 1; }
            Op16::W3RemoveInsertion => { if self.w3_ins > 0 { self.w3_ins -= 1; } }
            Op16::W3RemoveMutation => { if self.w3_mut > 0 { self.w3_mut -= 1; } }
            Op16::Tag(e) => { if self.alive[e as usize] { self.tagged[e as usize] = true; } }
            Op16::W5Add(e) => { if self.alive[e as usize] { self.w5[e as usize] += 1; self.dtracked[e as usize] = true; } }
            Op16::W5Remove(e) => { if self.w5[e as usize] > 0 { self.w5[e as usize] -= 1; } }
            Op16::W4Add => { self.w4_any += 1; }
            Op16::W4Remove => { if self.w4_any > 0 { self.w4_any -= 1; } }
            Op16::Despawn(e) =>
            {
                let ei = e as usize;
                for _ in 0..self.w5[ei] { out.push(Rec16::World5(ei as i32)); }
                self.w5[ei] = 0;
                self.dtracked[ei] = false;
                self.alive[ei] = false;
                self.has_comp[ei] = false;
                self.tracked[ei] = false;
                self.tagged[ei] = false;
                for ri in 0..2 { self.regs[ri][ei] = [0, 0]; self.local[ri][ei] = None; }
                self.w_entmut[ei] = 0;
            }
            Op16::WAdd(e) =>
            {
                self.w_broadcast += 1;
                if self.alive[e as usize] { self.w_entmut[e as usize] += 1; self.tracked[e as usize] = true; }
            }
            Op16::WRemoveBroadcast => { if self.w_broadcast > 0 { self.w_broadcast -= 1; } }
            Op16::WRemoveEntityMutation(e) => { self.w_entmut[e as usize] = 0; }
            Op16::WRun => { out.push(Rec16::World(0, -1)); }
        }
        out.sort();
        out
    }

    pub fn enabled(&self) -> Vec<Op16>
    {
        all_ops16().into_iter().filter(|op| match *op
        {
            // keep registration multiplicities small
            Op16::Add(r, e) => self.regs[(r - 1) as usize][e as usize].iter().all(|c| *c < 2),
            Op16::WAdd(e) => self.w_broadcast < 2 && self.w_entmut[e as usize] < 2,
            Op16::W2AddB => self.w2_b < 2,
            Op16::W3AddMutation => self.w3_mut < 2,
            Op16::W4Add => self.w4_any < 2,
            Op16::Tag(e) => self.alive[e as usize] && !self.tagged[e as usize],
            Op16::W5Add(e) => self.alive[e as usize] && self.w5[e as usize] < 1,
            Op16::Despawn(e) => self.alive[e as usize],
            _ => true,
        }).collect()
    }
}

#[derive(Clone, Debug, PartialEq, Eq, Hash)]
pub struct Key16
{
    model: Model16,
    has_local: [[bool; N_ENTS]; 2],
    /// The implementation's registration tables (non-empty lists, each sorted, entries sorted): two histories are merged
    /// only if the implementation ended up with the same registrations, not merely the model.
    tables: Vec<String>,
}

fn mutate_sys(In(e): In<Entity>, mut c: Commands, mut rm: ReactiveMut<CA>)
{
    if let Ok(v) = rm.get_mut(&mut c, e) { v.0 ^= 1; }
}

pub fn run16(hist: &[Op16]) -> StepResult<Key16>
{
    let mut app = App::new();
    // registered before the plugin is added: the app extension prepares what it needs by itself
    app.add_world_reactor_with(WR2, (broadcast::<EvB>(), resource_mutation::<RA>()));
    app.add_reactor(broadcast::<EvB>(), plain_reactor);
    app.add_world_reactor_with(WR3, insertion::<CA>());
    app.add_plugins(ReactPlugin);
    app.world_mut().insert_react_resource(RA(0));
    app.add_world_reactor(WR).add_entity_reactor(ER1).add_entity_reactor(ER2).add_world_reactor(WR4).add_world_reactor(WR5);
    let ents: Vec<Entity> = (0..N_ENTS).map(|_| app.world_mut().spawn_empty().id()).collect();
    ENTS.with(|v| *v.borrow_mut() = ents.clone());
    for e in ents.iter() { let e = *e; app.world_mut().react(|rc| rc.insert(e, CA(0))); }
    let w_sys = hooks::world_reactor_system::<WR>(app.world()).map(|s| *s);
    let e1_sys = hooks::entity_world_reactor_system::<ER1>(app.world()).map(|s| *s);
    let e2_sys = hooks::entity_world_reactor_system::<ER2>(app.world()).map(|s| *s);
    let n_syscommands = hooks::snapshot(app.world_mut()).system_commands.len();

    let mut model = Model16::new();
    let mut violations: Vec<(String, String)> = Vec::new();
    let mut stop = false;
    let mut payload = 0u32;
    let w2_sys = hooks::world_reactor_system::<WR2>(app.world()).map(|s| *s);
    let w3_sys = hooks::world_reactor_system::<WR3>(app.world()).map(|s| *s);

    for (k, op) in hist.iter().enumerate()
    {
        LOG.with(|l| l.borrow_mut().clear());
        let world = app.world_mut();
        let result = std::panic::catch_unwind(std::panic::AssertUnwindSafe(|| {
            match *op
            {
                Op16::Add(r, e) =>
                {
                    let data = 100 * (model.adds + 1);
                    let ent = ents[e as usize];
                    let mut c = world.commands();
                    if let Some(mut ec) = c.get_entity(ent)
                    {
                        if r == 1 { ec.add_world_reactor::<ER1>(data); } else { ec.add_world_reactor::<ER2>(data); }
                    }
                    world.flush();
                }
                Op16::Remove(r, e, w) =>
                {
                    let ent = ents[e as usize];
                    if r == 1
                    {
                        world.syscall((ent, w), |In((ent, w)): In<(Entity, Which)>, mut c: Commands, reactor: EntityReactor<ER1>| {
                            match w
                            {
                                Which::First => { reactor.remove(&mut c, entity_mutation::<CA>(ent)); }
                                Which::Second => { reactor.remove(&mut c, entity_event::<EvA>(ent)); }
                                Which::Both => { reactor.remove(&mut c, (entity_mutation::<CA>(ent), entity_event::<EvA>(ent))); }
                            }
                        });
                    }
                    else
                    {
                        world.syscall((ent, w), |In((ent, w)): In<(Entity, Which)>, mut c: Commands, reactor: EntityReactor<ER2>| {
                            match w
                            {
                                Which::First => { reactor.remove(&mut c, entity_mutation::<CA>(ent)); }
                                Which::Second => { reactor.remove(&mut c, entity_insertion::<CA>(ent)); }
                                Which::Both => { reactor.remove(&mut c, (entity_mutation::<CA>(ent), entity_insertion::<CA>(ent))); }
                            }
                        });
                    }
                }
                Op16::RemoveMulti(r, e, w) =>
                {
                    let (a, b) = (ents[e as usize], ents[1 - e as usize]);
                    if r == 1
                    {
                        world.syscall((a, b, w), |In((a, b, w)): In<(Entity, Entity, Which)>, mut c: Commands, reactor: EntityReactor<ER1>| {
                            match w
                            {
                                Which::First => { reactor.remove(&mut c, (entity_mutation::<CA>(a), entity_mutation::<CA>(b))); }
                                Which::Second => { reactor.remove(&mut c, (entity_event::<EvA>(a), entity_event::<EvA>(b))); }
                                Which::Both => { reactor.remove(&mut c, (entity_mutation::<CA>(a), entity_event::<EvA>(a), entity_mutation::<CA>(b), entity_event::<EvA>(b))); }
                            }
                        });
                    }
                    else
                    {
                        world.syscall((a, b, w), |In((a, b, w)): In<(Entity, Entity, Which)>, mut c: Commands, reactor: EntityReactor<ER2>| {
                            match w
                            {
                                Which::First => { reactor.remove(&mut c, (entity_mutation::<CA>(a), entity_mutation::<CA>(b))); }
                                Which::Second => { reactor.remove(&mut c, (entity_insertion::<CA>(a), entity_insertion::<CA>(b))); }
                                Which::Both => { reactor.remove(&mut c, (entity_mutation::<CA>(a), entity_insertion::<CA>(a), entity_mutation::<CA>(b), entity_insertion::<CA>(b))); }
                            }
                        });
                    }
                }
                Op16::FireMutation(e) => { world.syscall(ents[e as usize], mutate_sys); }
                Op16::FireEntityEvent(e) => { payload += 1; let p = payload; let ent = ents[e as usize]; world.react(|rc| rc.entity_event(ent, EvA(Pl(p)))); }
                Op16::FireInsertion(e) => { let ent = ents[e as usize]; world.react(|rc| rc.insert(ent, CA(0))); }
                Op16::FireBroadcast => { payload += 1; let p = payload; world.react(|rc| rc.broadcast(EvA(Pl(p)))); }
                Op16::FireBroadcastB => { payload += 1; let p = payload; world.broadcast(EvB(Pl(p))); }
                Op16::FireResource => { world.syscall((), |mut c: Commands, mut r: ReactResMut<RA>| { r.get_mut(&mut c).0 ^= 1; }); }
                Op16::W2AddB => { world.syscall((), |mut c: Commands, reactor: Reactor<WR2>| { reactor.add(&mut c, broadcast::<EvB>()); }); }
                Op16::W2RemoveB => { world.syscall((), |mut c: Commands, reactor: Reactor<WR2>| { reactor.remove(&mut c, broadcast::<EvB>()); }); }
                Op16::W2RemoveResource => { world.syscall((), |mut c: Commands, reactor: Reactor<WR2>| { reactor.remove(&mut c, resource_mutation::<RA>()); }); }
                Op16::W3AddMutation => { world.syscall((), |mut c: Commands, reactor: Reactor<WR3>| { reactor.add(&mut c, mutation::<CA>()); }); }
                Op16::W3RemoveInsertion => { world.syscall((), |mut c: Commands, reactor: Reactor<WR3>| { reactor.remove(&mut c, insertion::<CA>()); }); }
                Op16::W3RemoveMutation => { world.syscall((), |mut c: Commands, reactor: Reactor<WR3>| { reactor.remove(&mut c, mutation::<CA>()); }); }
                Op16::W4Add => { world.syscall((), |mut c: Commands, reactor: Reactor<WR4>| { reactor.add(&mut c, any_entity_event::<EvA>()); }); }
                Op16::W4Remove => { world.syscall((), |mut c: Commands, reactor: Reactor<WR4>| { reactor.remove(&mut c, any_entity_event::<EvA>()); }); }
                Op16::Tag(e) => { if let Ok(mut em) = world.get_entity_mut(ents[e as usize]) { em.insert(Tag16); } }
                Op16::W5Add(e) => { let ent = ents[e as usize]; world.syscall(ent, |In(ent): In<Entity>, mut c: Commands, reactor: Reactor<WR5>| { reactor.add(&mut c, despawn(ent)); }); }
                Op16::W5Remove(e) => { let ent = ents[e as usize]; world.syscall(ent, |In(ent): In<Entity>, mut c: Commands, reactor: Reactor<WR5>| { reactor.remove(&mut c, despawn(ent)); }); }
                Op16::Despawn(e) => { world.try_despawn(ents[e as usize]); schedule_removal_and_despawn_reactors(world); }
                Op16::WAdd(e) =>
                {
                    let ent = ents[e as usize];
                    world.syscall(ent, |In(ent): In<Entity>, mut c: Commands, reactor: Reactor<WR>| {
                        reactor.add(&mut c, (broadcast::<EvA>(), entity_mutation::<CA>(ent)));
                    });
                }
                Op16::WRemoveBroadcast =>
                {
                    world.syscall((), |mut c: Commands, reactor: Reactor<WR>| { reactor.remove(&mut c, broadcast::<EvA>()); });
                }
                Op16::WRemoveEntityMutation(e) =>
                {
                    let ent = ents[e as usize];
                    world.syscall(ent, |In(ent): In<Entity>, mut c: Commands, reactor: Reactor<WR>| {
                        reactor.remove(&mut c, entity_mutation::<CA>(ent));
                    });
                }
                Op16::WRun =>
                {
                    world.syscall((), |mut c: Commands, reactor: Reactor<WR>| { reactor.run(&mut c); });
                }
            }
        }));
        let expected = model.apply(*op);
        let last = k + 1 == hist.len();
        if let Err(e) = result
        {
            let msg = if let Some(s) = e.downcast_ref::<&str>() { s.to_string() } else if let Some(s) = e.downcast_ref::<String>() { s.clone() } else { "?".into() };
            if last { violations.push(("panic".into(), format!("{:?} panicked: {msg}", op))); }
            stop = true;
            break;
        }
        if !last { continue; }
        let mut got = LOG.with(|l| l.borrow().clone());
        got.sort();
        if got != expected
        {
            let sig = if got.len() != expected.len() { format!("run-count:{:?}", std::mem::discriminant(op)) } else { format!("local-data:{:?}", std::mem::discriminant(op)) };
            violations.push((sig, format!("after {:?}: expected runs {:?}, observed {:?}", op, expected, got)));
            stop = true;
        }
        let world = app.world_mut();
        for ri in 0..2
        {
            for ei in 0..N_ENTS
            {
                let has = if ri == 0 { hooks::has_entity_world_local::<ER1>(world, ents[ei]) } else { hooks::has_entity_world_local::<ER2>(world, ents[ei]) };
                if has != model.local[ri][ei].is_some()
                {
                    violations.push((format!("local-data-presence:{}", if has { "kept" } else { "removed" }),
                        format!("after {:?}: reactor {} local data on entity {ei}: present={has}, expected {}", op, ri + 1, model.local[ri][ei].is_some())));
                    stop = true;
                }
            }
        }
        // the reactor systems are never despawned or duplicated
        let snap = hooks::snapshot(world);
        for (name, sys) in [("world", w_sys), ("entity1", e1_sys), ("entity2", e2_sys), ("world2", w2_sys), ("world3", w3_sys)]
        {
            let ok = sys.map(|s| snap.system_commands.iter().any(|(e, has)| *e == s && *has)).unwrap_or(false);
            if !ok { violations.push(("reactor-system-gone".into(), format!("after {:?}: the {name} reactor's system no longer exists", op))); stop = true; }
        }
        if snap.system_commands.len() != n_syscommands
        {
            violations.push(("reactor-system-duplicated".into(), format!("after {:?}: {} system commands, expected {}", op, snap.system_commands.len(), n_syscommands)));
            stop = true;
        }
    }
    let world = app.world_mut();
    let mut has_local = [[false; N_ENTS]; 2];
    for ei in 0..N_ENTS
    {
        has_local[0][ei] = hooks::has_entity_world_local::<ER1>(world, ents[ei]);
        has_local[1][ei] = hooks::has_entity_world_local::<ER2>(world, ents[ei]);
    }
    let mut tables: Vec<String> = if stop { Vec::new() } else
    {
        hooks::snapshot(app.world_mut()).tables.into_iter().filter(|t| !t.reactors.is_empty()).map(|mut t| {
            t.reactors.sort();
            format!("{:?}/{:?}/{:?}/{:?}", t.kind, t.type_id, t.entity, t.reactors)
        }).collect()
    };
    tables.sort();
    StepResult{ key: Key16{ model, has_local, tables }, violations, stop }
}

pub fn enabled16(hist: &[Op16]) -> Vec<Op16>
{
    let mut m = Model16::new();
    for op in hist { m.apply(*op); }
    m.enabled()
}
