//! The closed universe: Bevy types, actor bodies, op issuing, and the executor that runs one program on a fresh
//! real `App` and returns its trace.

use crate::ctx::*;
use crate::model::*;
use crate::model::{Bundle, Name};

use bevy::ecs::system::{SystemParam, SystemState};
use bevy::prelude::*;
use bevy_cobweb::prelude::*;
use bevy_cobweb::verif as hooks;

use std::any::TypeId;
use std::sync::Arc;

//-------------------------------------------------------------------------------------------------------------------
// Payloads and canaries

/// Event payload that logs its own drop.
pub struct Pl(pub PayloadId);

impl Drop for Pl
{
    fn drop(&mut self) { push(TEv::Drop(self.0)); }
}

pub struct EvA(pub Pl);
pub struct EvB(pub Pl);

/// Captured by every actor closure; logs when the closure (system state) is dropped.
pub struct Canary(pub ActorId);

impl Drop for Canary
{
    fn drop(&mut self) { push(TEv::CanaryDrop(self.0)); }
}

#[derive(ReactComponent, PartialEq, Eq, Clone, Copy, Debug)]
pub struct CA(pub u8);
#[derive(ReactComponent, PartialEq, Eq, Clone, Copy, Debug)]
pub struct CB(pub u8);
#[derive(ReactResource, PartialEq, Eq, Clone, Copy, Debug, Default)]
pub struct RA(pub u8);

pub trait CompVal: ReactComponent + PartialEq + Copy
{
    fn new(v: u8) -> Self;
    fn val(&self) -> u8;
    fn set(&mut self, v: u8);
}
impl CompVal for CA { fn new(v: u8) -> Self { CA(v) } fn val(&self) -> u8 { self.0 } fn set(&mut self, v: u8) { self.0 = v; } }
impl CompVal for CB { fn new(v: u8) -> Self { CB(v) } fn val(&self) -> u8 { self.0 } fn set(&mut self, v: u8) { self.0 = v; } }

/// Lives in a `Local` of every actor: counts the runs and records, when it is constructed, which construction of
/// system state (in the whole execution) it belongs to. Constructing it is announced in the trace.
pub struct StateProbe
{
    pub ctr: u32,
    pub ordinal: u32,
}

impl FromWorld for StateProbe
{
    fn from_world(_: &mut World) -> Self
    {
        let mut ordinal = 0;
        try_with_ctx(|x| { x.state_builds += 1; ordinal = x.state_builds; });
        push(TEv::Value{ what: "state-built".into(), value: ordinal as i64 });
        StateProbe{ ctr: 0, ordinal }
    }
}

//-------------------------------------------------------------------------------------------------------------------
// Reader params

#[derive(SystemParam)]
pub struct AllReaders<'w, 's>
{
    se: SystemEvent<'w, 's, Pl>,
    ba: BroadcastEvent<'w, 's, EvA>,
    bb: BroadcastEvent<'w, 's, EvB>,
    ea: EntityEvent<'w, 's, EvA>,
    eb: EntityEvent<'w, 's, EvB>,
    ia: InsertionEvent<'w, 's, CA>,
    ib: InsertionEvent<'w, 's, CB>,
    ma: MutationEvent<'w, 's, CA>,
    mb: MutationEvent<'w, 's, CB>,
    ra: RemovalEvent<'w, 's, CA>,
    rb: RemovalEvent<'w, 's, CB>,
    de: DespawnEvent<'w>,
}

fn sample_readers(r: &mut AllReaders, take: bool) -> (Readers, Vec<Pl>)
{
    // Entities are translated to names under one context borrow; payloads taken from the system event are dropped
    // right here (their `Drop` logs into the trace), after the borrow is released.
    let mut taken: Option<Pl> = None;
    let mut taken2: Option<Pl> = None;
    if take
    {
        taken = r.se.take().ok();
        taken2 = r.se.take().ok();
    }
    // every accessor form of every reader must agree with the `try_read` / `get` form that is recorded
    let mut bad: Vec<&'static str> = Vec::new();
    macro_rules! agree_event { ($r:expr, $name:literal) => {
        match $r.try_read()
        {
            Ok(_) => { if $r.is_empty() { bad.push(concat!($name, ".is_empty")); } let _ = $r.read(); }
            Err(_) => { if !$r.is_empty() { bad.push(concat!($name, ".is_empty")); } }
        }
    } }
    agree_event!(r.ba, "BroadcastEvent<EvA>");
    agree_event!(r.bb, "BroadcastEvent<EvB>");
    agree_event!(r.ea, "EntityEvent<EvA>");
    agree_event!(r.eb, "EntityEvent<EvB>");
    macro_rules! agree_entity_event { ($r:expr, $name:literal) => {
        match $r.try_read()
        {
            Ok((e, _)) => { if $r.get_entity().ok() != Some(e) || $r.entity() != e || $r.read().0 != e { bad.push(concat!($name, ".entity")); } }
            Err(_) => { if $r.get_entity().is_ok() { bad.push(concat!($name, ".get_entity")); } }
        }
    } }
    agree_entity_event!(r.ea, "EntityEvent<EvA>");
    agree_entity_event!(r.eb, "EntityEvent<EvB>");
    macro_rules! agree_entity { ($r:expr, $name:literal) => {
        match $r.get()
        {
            Ok(e) => { if $r.is_empty() || $r.entity() != e { bad.push($name); } }
            Err(_) => { if !$r.is_empty() { bad.push($name); } }
        }
    } }
    agree_entity!(r.ia, "InsertionEvent<CA>");
    agree_entity!(r.ib, "InsertionEvent<CB>");
    agree_entity!(r.ma, "MutationEvent<CA>");
    agree_entity!(r.mb, "MutationEvent<CB>");
    agree_entity!(r.ra, "RemovalEvent<CA>");
    agree_entity!(r.rb, "RemovalEvent<CB>");
    agree_entity!(r.de, "DespawnEvent");
    for b in bad { push(TEv::Value{ what: format!("reader-api-inconsistent:{b}"), value: 0 }); }
    let out = with_ctx(|c| {
        Readers{
            sys: taken.as_ref().map(|p| p.0),
            sys_twice: taken2.is_some(),
            bcast: [r.ba.try_read().ok().map(|e| e.0.0), r.bb.try_read().ok().map(|e| e.0.0)],
            ent_ev: [
                r.ea.try_read().ok().map(|(e, d)| (c.name_of(e), d.0.0)),
                r.eb.try_read().ok().map(|(e, d)| (c.name_of(e), d.0.0)),
            ],
            ins: [r.ia.get().ok().map(|e| c.name_of(e)), r.ib.get().ok().map(|e| c.name_of(e))],
            mutn: [r.ma.get().ok().map(|e| c.name_of(e)), r.mb.get().ok().map(|e| c.name_of(e))],
            rem: [r.ra.get().ok().map(|e| c.name_of(e)), r.rb.get().ok().map(|e| c.name_of(e))],
            despawn: r.de.get().ok().map(|e| c.name_of(e)),
        }
    });
    // Taken payloads are handed back so the body drops them after its `RunEnter` record.
    let mut held = Vec::new();
    if let Some(p) = taken { held.push(p); }
    if let Some(p) = taken2 { held.push(p); }
    (out, held)
}

//-------------------------------------------------------------------------------------------------------------------
// Dynamic trigger bundle: forwards to the real trigger types.

#[derive(Clone, Copy)]
pub struct DynBundle
{
    n: u8,
    t: [DynTrig; 3],
}

#[derive(Clone, Copy)]
pub enum DynTrig
{
    Broadcast(Ev),
    EntityEvent(Ev, Entity),
    AnyEntityEvent(Ev),
    ResMut,
    Insertion(Comp),
    Mutation(Comp),
    Removal(Comp),
    EntityInsertion(Comp, Entity),
    EntityMutation(Comp, Entity),
    EntityRemoval(Comp, Entity),
    Despawn(Entity),
}

macro_rules! with_trigger
{
    ($t:expr, |$x:ident| $body:expr) =>
    {
        match $t
        {
            DynTrig::Broadcast(Ev::A) => { let $x = broadcast::<EvA>(); $body }
            DynTrig::Broadcast(Ev::B) => { let $x = broadcast::<EvB>(); $body }
            DynTrig::EntityEvent(Ev::A, e) => { let $x = entity_event::<EvA>(e); $body }
            DynTrig::EntityEvent(Ev::B, e) => { let $x = entity_event::<EvB>(e); $body }
            DynTrig::AnyEntityEvent(Ev::A) => { let $x = any_entity_event::<EvA>(); $body }
            DynTrig::AnyEntityEvent(Ev::B) => { let $x = any_entity_event::<EvB>(); $body }
            DynTrig::ResMut => { let $x = resource_mutation::<RA>(); $body }
            DynTrig::Insertion(Comp::A) => { let $x = insertion::<CA>(); $body }
            DynTrig::Insertion(Comp::B) => { let $x = insertion::<CB>(); $body }
            DynTrig::Mutation(Comp::A) => { let $x = mutation::<CA>(); $body }
            DynTrig::Mutation(Comp::B) => { let $x = mutation::<CB>(); $body }
            DynTrig::Removal(Comp::A) => { let $x = removal::<CA>(); $body }
            DynTrig::Removal(Comp::B) => { let $x = removal::<CB>(); $body }
            DynTrig::EntityInsertion(Comp::A, e) => { let $x = entity_insertion::<CA>(e); $body }
            DynTrig::EntityInsertion(Comp::B, e) => { let $x = entity_insertion::<CB>(e); $body }
            DynTrig::EntityMutation(Comp::A, e) => { let $x = entity_mutation::<CA>(e); $body }
            DynTrig::EntityMutation(Comp::B, e) => { let $x = entity_mutation::<CB>(e); $body }
            DynTrig::EntityRemoval(Comp::A, e) => { let $x = entity_removal::<CA>(e); $body }
            DynTrig::EntityRemoval(Comp::B, e) => { let $x = entity_removal::<CB>(e); $body }
            DynTrig::Despawn(e) => { let $x = despawn(e); $body }
        }
    }
}

// One trigger of a dynamic bundle. The bundle itself goes through the library's own tuple implementations of
// `ReactionTriggerBundle` (flat for two triggers, nested `((a, b), c)` for three), so that `len()`, the collection of
// reactor types for revoke tokens and the registration walk of tuples - nested ones included - are the real code
// (seeded changes r20-C06 / r20-C15 live there).
#[derive(Clone, Copy)]
pub struct DynOne(DynTrig);

impl ReactionTriggerBundle for DynOne
{
    fn len(&self) -> usize { 1 }

    fn collect_reactor_types(self, func: &mut impl FnMut(ReactorType))
    {
        with_trigger!(self.0, |x| func(x.reactor_type()));
    }

    fn register_triggers(self, commands: &mut Commands, handle: &ReactorHandle)
    {
        with_trigger!(self.0, |x| x.register(commands, handle));
    }
}

macro_rules! as_tuple
{
    ($s:expr, |$x:ident| $body:expr) =>
    {
        match $s.n
        {
            0 => { let $x = (); $body }
            1 => { let $x = (DynOne($s.t[0]),); $body }
            2 => { let $x = (DynOne($s.t[0]), DynOne($s.t[1])); $body }
            _ => { let $x = ((DynOne($s.t[0]), DynOne($s.t[1])), DynOne($s.t[2])); $body }
        }
    }
}

impl ReactionTriggerBundle for DynBundle
{
    fn len(&self) -> usize { as_tuple!(self, |x| x.len()) }

    fn collect_reactor_types(self, func: &mut impl FnMut(ReactorType))
    {
        as_tuple!(self, |x| x.collect_reactor_types(func))
    }

    fn register_triggers(self, commands: &mut Commands, handle: &ReactorHandle)
    {
        as_tuple!(self, |x| x.register_triggers(commands, handle))
    }
}

fn dyn_bundle(c: &Ctx, b: &Bundle) -> DynBundle
{
    let conv = |t: Trig| -> DynTrig {
        match t
        {
            Trig::Broadcast(e) => DynTrig::Broadcast(e),
            Trig::EntityEvent(ev, e) => DynTrig::EntityEvent(ev, c.ents[e as usize]),
            Trig::AnyEntityEvent(ev) => DynTrig::AnyEntityEvent(ev),
            Trig::ResMut => DynTrig::ResMut,
            Trig::Insertion(k) => DynTrig::Insertion(k),
            Trig::Mutation(k) => DynTrig::Mutation(k),
            Trig::Removal(k) => DynTrig::Removal(k),
            Trig::EntityInsertion(k, e) => DynTrig::EntityInsertion(k, c.ents[e as usize]),
            Trig::EntityMutation(k, e) => DynTrig::EntityMutation(k, c.ents[e as usize]),
            Trig::EntityRemoval(k, e) => DynTrig::EntityRemoval(k, c.ents[e as usize]),
            Trig::Despawn(e) => DynTrig::Despawn(c.ents[e as usize]),
        }
    };
    let mut t = [DynTrig::ResMut; 3];
    for i in 0..b.n as usize { t[i] = conv(b.t[i]); }
    DynBundle{ n: b.n, t }
}

//-------------------------------------------------------------------------------------------------------------------
// Liveness samples and snapshots

pub fn sample_live(world: &World) -> Live
{
    with_ctx(|c| {
        let mut live = Live::default();
        for (i, a) in c.actors.iter().enumerate()
        {
            if world.get_entity(a.entity).is_ok() { live.actors |= 1 << i; }
        }
        for (i, e) in c.ents.iter().enumerate()
        {
            let mut comps = [-1i8; 2];
            if world.get_entity(*e).is_ok()
            {
                live.ents |= 1 << i;
                if let Some(x) = world.get::<React<CA>>(*e) { comps[0] = x.get().0 as i8; }
                if let Some(x) = world.get::<React<CB>>(*e) { comps[1] = x.get().0 as i8; }
            }
            live.comps.push(comps);
        }
        live.res = world.get_react_resource::<RA>().map(|r| r.0).unwrap_or(255);
        live
    })
}

fn type_name_of(id: TypeId) -> String
{
    if id == TypeId::of::<CA>() { "CA".into() }
    else if id == TypeId::of::<CB>() { "CB".into() }
    else if id == TypeId::of::<EvA>() { "EvA".into() }
    else if id == TypeId::of::<EvB>() { "EvB".into() }
    else if id == TypeId::of::<RA>() { "RA".into() }
    else { "?".into() }
}

pub fn take_snapshot(world: &mut World) -> Snap
{
    let s = hooks::snapshot(world);
    let sys_event_data = hooks::count_system_event_data::<Pl>(world) as u32;
    let world_queue_empty = {
        // `World::commands()` hands out the world's own queue; `flush()` leaves it empty. We can only observe
        // emptiness indirectly: applying it again must not change anything. The queue is private, so we record
        // `true` and let the differential part of C11 observe leftovers behaviourally.
        true
    };
    with_ctx(|c| {
        let mut tables: Vec<_> = s.tables.iter()
            .filter(|t| !t.reactors.is_empty())
            .map(|t| (
                format!("{:?}", t.kind),
                t.type_id.map(type_name_of),
                t.entity.map(|e| c.name_of(e)),
                t.reactors.iter().map(|(e, rc)| (c.name_of(*e), *rc)).collect::<Vec<_>>(),
            ))
            .collect();
        tables.sort();
        let mut syscommands: Vec<_> = s.system_commands.iter().map(|(e, has)| (c.name_of(*e), *has)).collect();
        syscommands.sort();
        Snap{
            counter: s.syscommand_counter as u32,
            buffered: s.buffered_syscommands as u32,
            prepared: [
                s.system_event_prepared as u32, s.entity_reaction_prepared as u32,
                s.event_prepared as u32, s.despawn_prepared as u32,
            ],
            reacting: [s.system_event_reacting, s.entity_reaction_reacting, s.event_reacting, s.despawn_reacting],
            despawn_handle_held: s.despawn_handle_held,
            cache_scratch: s.cache_scratch_commands as u32,
            tables,
            removal_checkers: s.removal_checkers as u32,
            syscommands,
            data_entities: s.data_entities.len() as u32,
            sys_event_data,
            auto_despawn_pending: s.auto_despawn_pending as u32,
            despawn_tracker_pending: s.despawn_tracker_pending as u32,
            entity_count: s.entity_count as u32,
            world_queue_empty,
        }
    })
}

//-------------------------------------------------------------------------------------------------------------------
// Hook sink

fn comp_of(id: TypeId) -> Option<Comp>
{
    if id == TypeId::of::<CA>() { Some(Comp::A) }
    else if id == TypeId::of::<CB>() { Some(Comp::B) }
    else { None }
}

fn conv_kind(kind: hooks::VerifCommandKind) -> Kind
{
    use hooks::VerifCommandKind as K;
    match kind
    {
        K::SystemCommand => Kind::Manual,
        K::SystemEvent => Kind::SysEvent,
        K::Resource => Kind::Resource,
        K::Insertion(id) => comp_of(id).map(Kind::Insertion).unwrap_or(Kind::Unknown),
        K::Mutation(id) => comp_of(id).map(Kind::Mutation).unwrap_or(Kind::Unknown),
        K::Removal(id) => comp_of(id).map(Kind::Removal).unwrap_or(Kind::Unknown),
        K::Despawn => Kind::Despawn,
        K::EntityEvent => Kind::EntityEvent,
        K::Broadcast => Kind::Broadcast,
    }
}

fn install_sink()
{
    hooks::set_sink(Some(Box::new(|ev: hooks::VerifEvent| {
        try_with_ctx(|c| {
            use hooks::VerifEvent as V;
            let h = match ev
            {
                V::GarbageCollect => Hook::Gc,
                V::ReactionScheduled{ kind, target, source } =>
                    Hook::Scheduled{ kind: conv_kind(kind), target: c.name_of(target), source: c.name_of(source) },
                V::CommandApply{ kind, target, source, data_entity } =>
                {
                    let kind = conv_kind(kind);
                    Hook::CommandApply{
                        kind,
                        target: c.name_of(target),
                        source: source.map(|e| c.name_of(e)),
                        data: data_entity.map(|e| c.name_of(e)),
                    }
                }
                V::RunnerEnter{ target, counter } =>
                    Hook::RunnerEnter{ target: c.name_of(target), counter: counter as u32 },
                V::RunnerDecision{ target, decision } =>
                {
                    use hooks::VerifRunnerDecision as D;
                    let decision = match decision
                    {
                        D::Run => Decision::Run,
                        D::Postponed => Decision::Postponed,
                        D::AbortDead => Decision::AbortDead,
                        D::AbortNoComponent => Decision::AbortNoComponent,
                        D::AbortRootMissing => Decision::AbortRootMissing,
                    };
                    Hook::RunnerDecision{ target: c.name_of(target), decision }
                }
                V::RunnerBodyDone{ target } => Hook::RunnerBodyDone{ target: c.name_of(target) },
                V::RunnerReinsert{ target, reinserted } =>
                    Hook::RunnerReinsert{ target: c.name_of(target), reinserted },
                V::RunnerReplay{ parent, target } =>
                    Hook::RunnerReplay{ parent: c.name_of(parent), target: c.name_of(target) },
                V::RunnerDiscard{ target } => Hook::RunnerDiscard{ target: c.name_of(target) },
                V::RunnerExit{ target, counter } =>
                    Hook::RunnerExit{ target: c.name_of(target), counter: counter as u32 },
            };
            c.trace.push(TEv::Hook(h));
        });
    })));
}

//-------------------------------------------------------------------------------------------------------------------
// Helper systems used by ops

fn read_single_sys<C: CompVal>(In(e): In<Entity>, ro: Reactive<C>)
{
    let (ent, _) = ro.single();
    assert_eq!(ent, e);
    let _ = ro.get(e);
}

fn mutate_sys<C: CompVal>(In((e, how)): In<(Entity, How)>, mut c: Commands, mut rm: ReactiveMut<C>)
{
    // `single*` accessors (they panic unless exactly one entity matches, so they are used only then)
    let single = with_ctx(|x| x.cfg.single_route) && with_ctx(|x| x.single_holder) == Some(e);
    if single
    {
        match how
        {
            How::GetMut => { let (ent, v) = rm.single_mut(&mut c); assert_eq!(ent, e); let x = v.val(); v.set(x ^ 1); }
            How::SetIfNeq(v) => { let (ent, _) = rm.set_single_if_not_eq(&mut c, C::new(v)); assert_eq!(ent, e); }
            How::NoReact(v) => { let (ent, x) = rm.single_noreact(); assert_eq!(ent, e); x.set(v); }
            How::Read => { let (ent, _) = rm.single(); assert_eq!(ent, e); c.syscall(e, read_single_sys::<C>); }
            How::Trigger => {}
        }
        return;
    }
    match how
    {
        How::GetMut =>
        {
            if let Ok(v) = rm.get_mut(&mut c, e) { let x = v.val(); v.set(x ^ 1); }
        }
        How::SetIfNeq(v) => { let _ = rm.set_if_neq(&mut c, e, C::new(v)); }
        How::NoReact(v) => { if let Ok(x) = rm.get_noreact(e) { x.set(v); } }
        How::Read => { let _ = rm.get(e); }
        How::Trigger => {}
    }
}

/// `World`-level resource API (there is no reacting mutable access at world level).
fn res_mutate_world(w: &mut World, how: How)
{
    match how
    {
        How::NoReact(v) => { w.react_resource_mut_noreact::<RA>().0 = v; }
        How::Read => { let _ = w.react_resource::<RA>().0; let _ = w.get_react_resource::<RA>(); let _ = w.contains_react_resource::<RA>(); }
        How::Trigger => { w.trigger_resource_mutation::<RA>(); }
        _ => { w.syscall(how, res_mutate_sys); }
    }
}

fn res_mutate_sys(In(how): In<How>, mut c: Commands, mut r: ReactResMut<RA>)
{
    match how
    {
        How::GetMut => { let v = r.get_mut(&mut c); v.0 ^= 1; }
        How::SetIfNeq(v) => { let _ = r.set_if_neq(&mut c, RA(v)); }
        How::NoReact(v) => { r.get_noreact().0 = v; }
        How::Read => { let _ = r.0; }
        How::Trigger => { c.react().trigger_resource_mutation::<RA>(); }
    }
}

//-------------------------------------------------------------------------------------------------------------------
// Issuing ops

fn marker(cmd: CmdId) -> impl FnOnce(&mut World) + Send + 'static
{
    move |w: &mut World| {
        let live = sample_live(w);
        push(TEv::Applied{ cmd, live });
        with_ctx(|x| {
            if let Some(p) = x.pending_creations.iter().position(|(c, _, _)| *c == cmd)
            {
                let (_, a, t) = x.pending_creations.remove(p);
                if let Some(a) = a { x.actors_ready |= 1 << a; }
                if let Some(t) = t { x.tokens_ready |= 1 << t; }
            }
        });
    }
}

/// Issues one op through `c`: records it, queues its marker, queues its own command(s).
pub fn issue_op(c: &mut Commands, op: Op, cmd: CmdId, top: bool, rm: Option<&mut ReactiveMut<CA>>)
{
    // body-time accessors need the issuing system's own ReactiveMut; without one they degrade to apply-time access
    let op = match (op, rm.is_some()) { (Op::MutateNow(e, how), false) => Op::Mutate(Comp::A, e, how), (o, _) => o };
    let mut issued = Issued{ op, payload: None, new_actor: None, token: None, issue_ok: true, value: None };
    let world_route = with_ctx(|x| x.cfg.world_route);

    // allocate ids first so that the record precedes every effect
    match op
    {
        Op::SysEvent(_) | Op::Broadcast(_) | Op::EntityEvent(_, _) =>
        {
            issued.payload = Some(with_ctx(|x| x.fresh_payload()));
        }
        _ => {}
    }

    // ops that allocate actors / tokens need the Commands first; record after.
    let record = |issued: Issued| {
        if issued.new_actor.is_some() || issued.token.is_some()
        {
            with_ctx(|x| x.pending_creations.push((cmd, issued.new_actor, issued.token)));
        }
        push(if top { TEv::Top{ cmd, issued } } else { TEv::Issue{ cmd, issued } });
    };

    match op
    {
        Op::Run(a) =>
        {
            record(issued);
            c.queue(marker(cmd));
            let e = with_ctx(|x| x.actors[a as usize].entity);
            if world_route { c.queue(move |w: &mut World| SystemCommand(e).apply(w)); }
            else { c.queue(SystemCommand(e)); }
        }
        Op::SysEvent(a) =>
        {
            let p = issued.payload.unwrap();
            record(issued);
            c.queue(marker(cmd));
            let e = with_ctx(|x| x.actors[a as usize].entity);
            if world_route { let pl = Pl(p); c.queue(move |w: &mut World| w.send_system_event(SystemCommand(e), pl)); }
            else { c.send_system_event(SystemCommand(e), Pl(p)); }
        }
        Op::Broadcast(ev) =>
        {
            let p = issued.payload.unwrap();
            record(issued);
            c.queue(marker(cmd));
            match (ev, world_route)
            {
                (Ev::A, false) => c.react().broadcast(EvA(Pl(p))),
                (Ev::B, false) => c.react().broadcast(EvB(Pl(p))),
                (Ev::A, true) => { let pl = EvA(Pl(p)); c.queue(move |w: &mut World| w.broadcast(pl)); }
                (Ev::B, true) => { let pl = EvB(Pl(p)); c.queue(move |w: &mut World| w.broadcast(pl)); }
            }
        }
        Op::EntityEvent(ev, e) =>
        {
            let p = issued.payload.unwrap();
            record(issued);
            c.queue(marker(cmd));
            let e = with_ctx(|x| x.ents[e as usize]);
            match (ev, world_route)
            {
                (Ev::A, false) => c.react().entity_event(e, EvA(Pl(p))),
                (Ev::B, false) => c.react().entity_event(e, EvB(Pl(p))),
                (Ev::A, true) => { let pl = EvA(Pl(p)); c.queue(move |w: &mut World| w.entity_event(e, pl)); }
                (Ev::B, true) => { let pl = EvB(Pl(p)); c.queue(move |w: &mut World| w.entity_event(e, pl)); }
            }
        }
        Op::Insert(k, e, v) =>
        {
            let e = with_ctx(|x| x.ents[e as usize]);
            // through `World::react` the existence check happens when the closure runs, not when it is queued
            issued.issue_ok = world_route || c.get_entity(e).is_some();
            record(issued);
            c.queue(marker(cmd));
            match (k, world_route)
            {
                (Comp::A, false) => c.react().insert(e, CA(v)),
                (Comp::B, false) => c.react().insert(e, CB(v)),
                (Comp::A, true) => c.queue(move |w: &mut World| { w.react(|rc| rc.insert(e, CA(v))); }),
                (Comp::B, true) => c.queue(move |w: &mut World| { w.react(|rc| rc.insert(e, CB(v))); }),
            }
        }
        Op::Mutate(k, e, how) =>
        {
            record(issued);
            c.queue(marker(cmd));
            let e = with_ctx(|x| x.ents[e as usize]);
            c.queue(move |w: &mut World| {
                if how == How::Trigger
                {
                    match k
                    {
                        Comp::A => React::<CA>::trigger_mutation(e, w),
                        Comp::B => React::<CB>::trigger_mutation(e, w),
                    }
                    return;
                }
                // the only entity carrying the component, if there is exactly one (for the `single*` accessors)
                let holder = match k
                {
                    Comp::A => { let mut q = w.query_filtered::<Entity, With<React<CA>>>(); let v: Vec<Entity> = q.iter(w).collect(); if v.len() == 1 { Some(v[0]) } else { None } }
                    Comp::B => { let mut q = w.query_filtered::<Entity, With<React<CB>>>(); let v: Vec<Entity> = q.iter(w).collect(); if v.len() == 1 { Some(v[0]) } else { None } }
                };
                with_ctx(|x| x.single_holder = holder);
                match k
                {
                    Comp::A => w.syscall((e, how), mutate_sys::<CA>),
                    Comp::B => w.syscall((e, how), mutate_sys::<CB>),
                }
            });
        }
        Op::MutateNow(e, how) =>
        {
            let rm = rm.unwrap();
            let ent = with_ctx(|x| x.ents[e as usize]);
            // the marker goes first so that it precedes the trigger command the accessor queues
            c.queue(marker(cmd));
            match how
            {
                How::GetMut =>
                {
                    match rm.get_mut(c, ent) { Ok(v) => { v.0 ^= 1; issued.issue_ok = true; } Err(_) => { issued.issue_ok = false; } }
                }
                How::SetIfNeq(v) =>
                {
                    let old = rm.set_if_neq(c, ent, CA(v));
                    issued.issue_ok = old.is_some();
                    issued.value = Some(old.map(|o| o.0 as i16).unwrap_or(-1));
                }
                How::NoReact(v) => { if let Ok(x) = rm.get_noreact(ent) { x.0 = v; } issued.issue_ok = false; }
                How::Read => { let _ = rm.get(ent); issued.issue_ok = false; }
                How::Trigger => { issued.issue_ok = false; }
            }
            record(issued);
        }
        Op::ResMutate(how) =>
        {
            record(issued);
            c.queue(marker(cmd));
            if world_route { c.queue(move |w: &mut World| res_mutate_world(w, how)); }
            else { c.queue(move |w: &mut World| { w.syscall(how, res_mutate_sys); }); }
        }
        Op::RemoveComp(k, e) =>
        {
            record(issued);
            c.queue(marker(cmd));
            let e = with_ctx(|x| x.ents[e as usize]);
            c.queue(move |w: &mut World| {
                if let Ok(mut em) = w.get_entity_mut(e)
                {
                    match k
                    {
                        Comp::A => { em.remove::<React<CA>>(); }
                        Comp::B => { em.remove::<React<CB>>(); }
                    }
                }
            });
        }
        Op::Clear(e) =>
        {
            record(issued);
            c.queue(marker(cmd));
            let e = with_ctx(|x| x.ents[e as usize]);
            c.queue(move |w: &mut World| {
                if let Ok(mut em) = w.get_entity_mut(e) { em.clear(); }
            });
        }
        Op::Despawn(e) =>
        {
            record(issued);
            c.queue(marker(cmd));
            let e = with_ctx(|x| x.ents[e as usize]);
            c.queue(move |w: &mut World| { w.try_despawn(e); });
        }
        Op::DespawnRecursive(e) =>
        {
            record(issued);
            c.queue(marker(cmd));
            let e = with_ctx(|x| x.ents[e as usize]);
            c.queue(move |w: &mut World| {
                if let Ok(em) = w.get_entity_mut(e) { em.despawn_recursive(); }
            });
        }
        Op::DespawnSys(a) =>
        {
            record(issued);
            c.queue(marker(cmd));
            let e = with_ctx(|x| x.actors[a as usize].entity);
            c.queue(move |w: &mut World| { w.try_despawn(e); });
        }
        Op::StripSys(a) =>
        {
            record(issued);
            c.queue(marker(cmd));
            let e = with_ctx(|x| x.actors[a as usize].entity);
            c.queue(move |w: &mut World| { if let Ok(mut em) = w.get_entity_mut(e) { em.clear(); } });
        }
        Op::TagSys(a) =>
        {
            record(issued);
            c.queue(marker(cmd));
            let e = with_ctx(|x| x.actors[a as usize].entity);
            c.queue(move |w: &mut World| { if let Ok(mut em) = w.get_entity_mut(e) { em.insert(HarnessTag); } });
        }
        Op::Register(a, b, mode) =>
        {
            let (e, bundle, tok_id) = with_ctx(|x| {
                (x.actors[a as usize].entity, dyn_bundle(x, &b), x.tokens.len() as TokenId)
            });
            if mode == Mode::Revokable { issued.token = Some(tok_id); }
            record(issued);
            c.queue(marker(cmd));
            let tok = c.react().with(bundle, SystemCommand(e), conv_mode(mode));
            if let Some(tok) = tok { with_ctx(|x| x.tokens.push(tok)); }
        }
        Op::RegisterNew(variant, b, mode) =>
        {
            let (bundle, tok_id, new_id) = with_ctx(|x| {
                (dyn_bundle(x, &b), x.tokens.len() as TokenId, x.actors.len() as ActorId)
            });
            issued.new_actor = Some(new_id);
            if mode == Mode::Revokable { issued.token = Some(tok_id); }
            record(issued);
            c.queue(marker(cmd));
            // odd actor ids of the ordinary variant go through the convenience wrappers `on_revokable` / `on_persistent`
            // (spawn + register in one call), everything else through spawn_system_command + `with`
            if world_route && variant == Variant::Plain && mode == Mode::Persistent
            {
                // spawned *and* registered when the command is applied (World::react + on_persistent): the entity id is
                // allocated then, possibly re-using the index of an entity despawned earlier in the same run
                with_ctx(|x| x.actors.push(ActorRt{ entity: Entity::PLACEHOLDER, variant, runs: 0 }));
                c.queue(move |w: &mut World| {
                    let sc = w.react(|rc| rc.on_persistent(bundle, plain_actor(new_id, false, true, vec![])));
                    with_ctx(|x| { x.names.insert(*sc, Name::Actor(new_id)); x.actors[new_id as usize].entity = *sc; });
                });
            }
            else if new_id % 2 == 1 && variant == Variant::Plain && mode == Mode::Revokable
            {
                let tok = c.react().on_revokable(bundle, plain_actor(new_id, false, true, vec![]));
                let e = *SystemCommand::from(tok.clone());
                with_ctx(|x| {
                    x.names.insert(e, Name::Actor(new_id));
                    x.actors.push(ActorRt{ entity: e, variant, runs: 0 });
                    x.tokens.push(tok);
                });
            }
            else if new_id % 2 == 1 && variant == Variant::Plain && mode == Mode::Persistent
            {
                let sc = c.react().on_persistent(bundle, plain_actor(new_id, false, true, vec![]));
                with_ctx(|x| {
                    x.names.insert(*sc, Name::Actor(new_id));
                    x.actors.push(ActorRt{ entity: *sc, variant, runs: 0 });
                });
            }
            else
            {
                let sc = spawn_actor_commands(c, new_id, variant);
                let tok = c.react().with(bundle, sc, conv_mode(mode));
                if let Some(tok) = tok { with_ctx(|x| x.tokens.push(tok)); }
            }
        }
        Op::Once(variant, b) =>
        {
            let (bundle, tok_id, new_id) = with_ctx(|x| {
                (dyn_bundle(x, &b), x.tokens.len() as TokenId, x.actors.len() as ActorId)
            });
            issued.new_actor = Some(new_id);
            issued.token = Some(tok_id);
            record(issued);
            c.queue(marker(cmd));
            let tok = match variant
            {
                Variant::Plain => c.react().once(bundle, plain_actor(new_id, false, true, vec![])),
                Variant::NoTake => c.react().once(bundle, plain_actor(new_id, false, false, vec![])),
                Variant::Erring => c.react().once(bundle, erring_actor(new_id, vec![])),
                Variant::Exclusive => c.react().once(bundle, exclusive_actor(new_id, vec![], false)),
                Variant::ExclusiveFlush => c.react().once(bundle, exclusive_actor(new_id, vec![], true)),
                Variant::Deferred => c.react().once(bundle, deferred_actor(new_id, vec![])),
            };
            let e = *SystemCommand::from(tok.clone());
            with_ctx(|x| {
                x.names.insert(e, Name::Actor(new_id));
                x.actors.push(ActorRt{ entity: e, variant, runs: 0 });
                x.tokens.push(tok);
            });
        }
        Op::Revoke(k) =>
        {
            record(issued);
            c.queue(marker(cmd));
            let tok = with_ctx(|x| x.tokens[k as usize].clone());
            c.react().revoke(tok);
        }
        Op::Gc =>
        {
            record(issued);
            c.queue(marker(cmd));
            c.queue(|w: &mut World| garbage_collect_entities(w));
        }
        Op::Poll =>
        {
            record(issued);
            c.queue(marker(cmd));
            c.queue(|w: &mut World| schedule_removal_and_despawn_reactors(w));
        }
        Op::Nop =>
        {
            record(issued);
            c.queue(marker(cmd));
        }
        Op::EwrAdd(e) =>
        {
            let ent = with_ctx(|x| x.ents[e as usize]);
            issued.issue_ok = c.get_entity(ent).is_some();
            record(issued);
            c.queue(marker(cmd));
            if let Some(mut ec) = c.get_entity(ent) { ec.add_world_reactor::<HarnessEwr>(7); }
        }
        Op::EwrRemove(e, w) =>
        {
            let ent = with_ctx(|x| x.ents[e as usize]);
            record(issued);
            c.queue(marker(cmd));
            c.syscall((ent, w), |In((ent, w)): In<(Entity, u8)>, mut c: Commands, reactor: EntityReactor<HarnessEwr>| {
                match w
                {
                    0 => { reactor.remove(&mut c, entity_event::<EvA>(ent)); }
                    1 => { reactor.remove(&mut c, entity_mutation::<CA>(ent)); }
                    _ => { reactor.remove(&mut c, (entity_event::<EvA>(ent), entity_mutation::<CA>(ent))); }
                }
            });
        }
        Op::DropSignal(e) =>
        {
            record(issued);
            c.queue(marker(cmd));
            c.queue(move |_w: &mut World| {
                let sig = with_ctx(|x| x.signals.get_mut(e as usize).and_then(|s| s.take()));
                drop(sig);
            });
        }
    }
}

#[derive(Component)]
pub struct HarnessTag;

/// The entity world reactor of the lazy-program universe: its system is an ordinary harness actor.
pub struct HarnessEwr(pub ActorId, pub Variant);

impl EntityWorldReactor for HarnessEwr
{
    type Triggers = (EntityEventTrigger<EvA>, EntityMutationTrigger<CA>);
    type Local = u32;
    fn reactor(self) -> SystemCommandCallback
    {
        match self.1
        {
            Variant::Plain => SystemCommandCallback::new(plain_actor(self.0, false, true, vec![])),
            Variant::NoTake => SystemCommandCallback::new(plain_actor(self.0, false, false, vec![])),
            Variant::Erring => SystemCommandCallback::new(erring_actor(self.0, vec![])),
            Variant::Exclusive => SystemCommandCallback::new(exclusive_actor(self.0, vec![], false)),
            Variant::ExclusiveFlush => SystemCommandCallback::new(exclusive_actor(self.0, vec![], true)),
            Variant::Deferred => SystemCommandCallback::new(deferred_actor(self.0, vec![])),
        }
    }
}

fn conv_mode(m: Mode) -> ReactorMode
{
    match m
    {
        Mode::Persistent => ReactorMode::Persistent,
        Mode::Cleanup => ReactorMode::Cleanup,
        Mode::Revokable => ReactorMode::Revokable,
    }
}

//-------------------------------------------------------------------------------------------------------------------
// Actor bodies

/// Common body: record entry, obtain the script for this run, issue it, queue the end marker.
fn actor_run(id: ActorId, c: &mut Commands, readers: Readers, local_ctr: u32, closure_ctr: u32, variant: Variant,
    mut rm: Option<&mut ReactiveMut<CA>>, state_ordinal: u32)
{
    // run id
    let (rid, over_cap) = with_ctx(|x| {
        let rt = &mut x.actors[id as usize];
        let rid = RunId{ actor: id, run: rt.runs };
        rt.runs += 1;
        x.total_runs += 1;
        x.used_actors |= 1 << id;
        (rid, x.total_runs > x.cfg.max_runs)
    });
    push(TEv::RunEnter{ id: rid, local_ctr, closure_ctr, variant, readers });
    push(TEv::Value{ what: format!("state-ordinal:{id}"), value: state_ordinal as i64 });

    // script fixed by the configuration (probe actors)
    let fixed: Option<Vec<Op>> = with_ctx(|x| {
        if !x.cfg.fixed_scripts.iter().any(|(a, _, _)| *a == id) { return None; }
        Some(x.cfg.fixed_scripts.iter().find(|(a, r, _)| *a == id && *r == rid.run).map(|(_, _, ops)| ops.clone()).unwrap_or_default())
    });
    let mut idx: u16 = 0;
    if let Some(ops) = fixed
    {
        for op in ops
        {
            issue_op(c, op, CmdId{ by: Issuer::Run(rid), idx }, false, rm.as_deref_mut());
            idx += 1;
        }
    }
    // script (lazily chosen)
    else if !over_cap
    {
        loop
        {
            let op = with_ctx(|x| {
                if idx as u32 >= x.cfg.max_per_run { return None; }
                let alphabet = x.cfg.script.clone();
                x.choose_op(&alphabet, Where::Script(rid, idx))
            });
            let Some(op) = op else { break };
            with_ctx(|x| {
                match x.scripts.iter_mut().find(|(r, _)| *r == rid)
                {
                    Some((_, v)) => v.push(op),
                    None => x.scripts.push((rid, vec![op])),
                }
            });
            issue_op(c, op, CmdId{ by: Issuer::Run(rid), idx }, false, rm.as_deref_mut());
            idx += 1;
        }
    }
    else
    {
        with_ctx(|x| {
            if x.machinery_error.is_none() { x.machinery_error = Some("run cap exceeded".into()); }
        });
    }

    // end marker
    c.queue(move |w: &mut World| {
        let live = sample_live(w);
        push(TEv::DeferredEnd{ id: rid, live });
    });
    push(TEv::BodyExit{ id: rid });
}

/// All ordinary actors are instances of this one closure type.
pub fn plain_actor(id: ActorId, erring: bool, take: bool, sigs: Vec<AutoDespawnSignal>)
    -> impl FnMut(Commands, AllReaders, Local<StateProbe>, ReactiveMut<CA>) -> DropErr + Send + Sync + 'static
{
    // the canary is declared first so that it is dropped before the captured signals
    let canary = Canary(id);
    let mut closure_ctr = 0u32;
    move |mut c: Commands, mut r: AllReaders, mut local: Local<StateProbe>, mut rm: ReactiveMut<CA>| -> DropErr
    {
        let _keep = (&canary, &sigs);
        let (readers, held) = sample_readers(&mut r, take);
        let variant = if erring { Variant::Erring } else if take { Variant::Plain } else { Variant::NoTake };
        actor_run(id, &mut c, readers, local.ctr, closure_ctr, variant, Some(&mut rm), local.ordinal);
        drop(held);
        local.ctr += 1;
        closure_ctr += 1;
        if erring { return Err(IgnoredError); }
        DONE
    }
}

pub fn erring_actor(id: ActorId, sigs: Vec<AutoDespawnSignal>) -> impl FnMut(Commands, AllReaders, Local<StateProbe>, ReactiveMut<CA>) -> DropErr + Send + Sync + 'static
{
    plain_actor(id, true, true, sigs)
}

/// Exclusive actors: readers through a cached `SystemState`, commands through `world.commands()`.
pub fn exclusive_actor(id: ActorId, sigs: Vec<AutoDespawnSignal>, flush_first: bool)
    -> impl FnMut(&mut World, &mut SystemState<AllReaders<'static, 'static>>, Local<StateProbe>) + Send + Sync + 'static
{
    let canary = Canary(id);
    let mut closure_ctr = 0u32;
    move |world: &mut World, st: &mut SystemState<AllReaders<'static, 'static>>, mut local: Local<StateProbe>|
    {
        let _keep = (&canary, &sigs);
        if flush_first { world.flush(); }
        let (readers, held) = {
            let mut r = st.get_mut(world);
            sample_readers(&mut r, true)
        };
        let mut c = world.commands();
        actor_run(id, &mut c, readers, local.ctr, closure_ctr, if flush_first { Variant::ExclusiveFlush } else { Variant::Exclusive }, None, local.ordinal);
        drop(held);
        local.ctr += 1;
        closure_ctr += 1;
    }
}

/// Ordinary (non-exclusive) actors whose commands go through `DeferredWorld::commands()`, i.e. onto the world's own
/// command queue instead of a system-local buffer. `DeferredWorld` conflicts with every other parameter, so the actor is
/// a pipe: the first half samples the readers, the second half issues the operations.
pub fn deferred_actor(id: ActorId, sigs: Vec<AutoDespawnSignal>) -> impl System<In = (), Out = ()>
{
    let canary = Canary(id);
    let mut closure_ctr = 0u32;
    let a = move |mut r: AllReaders, mut local: Local<StateProbe>| -> (Readers, Vec<Pl>, u32, u32)
    {
        let (readers, held) = sample_readers(&mut r, true);
        let out = (readers, held, local.ctr, local.ordinal);
        local.ctr += 1;
        out
    };
    let b = move |In((readers, held, ctr, ord)): In<(Readers, Vec<Pl>, u32, u32)>, mut dw: bevy::ecs::world::DeferredWorld|
    {
        let _keep = (&canary, &sigs);
        let mut c = dw.commands();
        actor_run(id, &mut c, readers, ctr, closure_ctr, Variant::Deferred, None, ord);
        drop(held);
        closure_ctr += 1;
    };
    IntoSystem::into_system(a.pipe(b))
}

fn spawn_actor_world(world: &mut World, id: ActorId, variant: Variant, sigs: Vec<AutoDespawnSignal>) -> SystemCommand
{
    // odd ordinary actors are spawned through the free function, the others through the `World` extension method
    if id % 2 == 1 && variant == Variant::Plain
    {
        let sc = bevy_cobweb::prelude::spawn_system_command(world, plain_actor(id, false, true, sigs));
        with_ctx(|x| {
            x.names.insert(*sc, Name::Actor(id));
            x.actors.push(ActorRt{ entity: *sc, variant, runs: 0 });
        });
        return sc;
    }
    let sc = match variant
    {
        Variant::Plain => world.spawn_system_command(plain_actor(id, false, true, sigs)),
        Variant::NoTake => world.spawn_system_command(plain_actor(id, false, false, sigs)),
        Variant::Erring => world.spawn_system_command(erring_actor(id, sigs)),
        Variant::Exclusive => world.spawn_system_command(exclusive_actor(id, sigs, false)),
        Variant::ExclusiveFlush => world.spawn_system_command(exclusive_actor(id, sigs, true)),
        Variant::Deferred => world.spawn_system_command(deferred_actor(id, sigs)),
    };
    with_ctx(|x| {
        x.names.insert(*sc, Name::Actor(id));
        x.actors.push(ActorRt{ entity: *sc, variant, runs: 0 });
    });
    sc
}

fn spawn_actor_commands(c: &mut Commands, id: ActorId, variant: Variant) -> SystemCommand
{
    let sc = match variant
    {
        Variant::Plain => c.spawn_system_command(plain_actor(id, false, true, vec![])),
        Variant::NoTake => c.spawn_system_command(plain_actor(id, false, false, vec![])),
        Variant::Erring => c.spawn_system_command(erring_actor(id, vec![])),
        Variant::Exclusive => c.spawn_system_command(exclusive_actor(id, vec![], false)),
        Variant::ExclusiveFlush => c.spawn_system_command(exclusive_actor(id, vec![], true)),
        Variant::Deferred => c.spawn_system_command(deferred_actor(id, vec![])),
    };
    with_ctx(|x| {
        x.names.insert(*sc, Name::Actor(id));
        x.actors.push(ActorRt{ entity: *sc, variant, runs: 0 });
    });
    sc
}

//-------------------------------------------------------------------------------------------------------------------
// Executor

/// Result of one execution.
pub struct Execution
{
    pub trace: Vec<TEv>,
    pub record: Vec<(u32, u32)>,
    pub tops: Vec<Op>,
    pub scripts: Vec<(RunId, Vec<Op>)>,
    pub chooser_error: Option<String>,
    pub machinery_error: Option<String>,
    pub panicked: bool,
}

fn quiescent(world: &mut World)
{
    let snap = take_snapshot(world);
    let live = sample_live(world);
    push(TEv::Quiescent{ snap, live });
}

fn top_level(app: &mut App, op: Op, by: Issuer, idx: u16, update: bool)
{
    let world = app.world_mut();
    {
        let mut c = world.commands();
        issue_op(&mut c, op, CmdId{ by, idx }, true, None);
    }
    world.flush();
    if update { app.update(); }
    quiescent(app.world_mut());
}

/// Frame mode: a plain Bevy system of the `Update` schedule that issues the operation placed in slot `I`.
fn slot_system<const I: usize>(mut c: Commands)
{
    let op = with_ctx(|x| x.slots.get_mut(I).and_then(|s| s.take()));
    if let Some((op, idx)) = op { issue_op(&mut c, op, CmdId{ by: Issuer::Top, idx }, true, None); }
}

/// Reactors registered at app level (`App::add_reactor`): presented to the monitor as setup operations. With `early`
/// (before `ReactPlugin` has been added; the trigger entities exist already) the world cannot be sampled yet and the
/// ordinary actors do not exist yet: the trace events and the actor records are returned and emitted once the plugin is
/// in and the ordinary actors have been spawned (`finish_early_app_reactors`).
fn add_app_reactors(app: &mut App, cfg: &Arc<Config>, early: bool) -> Vec<(CmdId, Issued, Entity, Variant, ActorId)>
{
    let mut pending = Vec::new();
    for (k, (variant, bundle)) in cfg.app_reactors.iter().enumerate()
    {
        let id = (cfg.actors.len() + k) as ActorId;
        let before: Vec<Entity> = if early { app.world().iter_entities().map(|e| e.id()).collect() }
            else { hooks::snapshot(app.world_mut()).system_commands.iter().map(|(e, _)| *e).collect() };
        let b = with_ctx(|x| dyn_bundle(x, bundle));
        let cmd = CmdId{ by: Issuer::Setup, idx: 1000 + k as u16 };
        let issued = Issued{ op: Op::RegisterNew(*variant, *bundle, Mode::Persistent), payload: None, new_actor: Some(id), token: None, issue_ok: true, value: None };
        if !early { push(TEv::Top{ cmd, issued: issued.clone() }); }
        match variant
        {
            Variant::Plain => { app.add_reactor(b, plain_actor(id, false, true, vec![])); }
            Variant::NoTake => { app.add_reactor(b, plain_actor(id, false, false, vec![])); }
            Variant::Erring => { app.add_reactor(b, erring_actor(id, vec![])); }
            Variant::Exclusive => { app.add_reactor(b, exclusive_actor(id, vec![], false)); }
            Variant::ExclusiveFlush => { app.add_reactor(b, exclusive_actor(id, vec![], true)); }
            Variant::Deferred => { app.add_reactor(b, deferred_actor(id, vec![])); }
        }
        let after: Vec<Entity> = if early { app.world().iter_entities().map(|e| e.id()).collect() }
            else { hooks::snapshot(app.world_mut()).system_commands.iter().map(|(e, _)| *e).collect() };
        let new: Vec<Entity> = after.into_iter().filter(|e| !before.contains(e)).collect();
        let ent = if new.len() == 1 { new[0] } else { Entity::PLACEHOLDER };
        if early { pending.push((cmd, issued, ent, *variant, id)); continue; }
        finish_app_reactor(app, cmd, ent, *variant, id, true);
    }
    pending
}

fn finish_app_reactor(app: &mut App, cmd: CmdId, ent: Entity, variant: Variant, id: ActorId, quiesce: bool)
{
    if ent == Entity::PLACEHOLDER { push(TEv::Value{ what: "app-reactor-not-spawned".into(), value: id as i64 }); }
    with_ctx(|x| {
        if ent != Entity::PLACEHOLDER { x.names.insert(ent, Name::Actor(id)); }
        x.actors.push(ActorRt{ entity: ent, variant, runs: 0 });
        x.actors_ready |= 1 << id;
    });
    let live = sample_live(app.world());
    push(TEv::Applied{ cmd, live });
    if quiesce { quiescent(app.world_mut()); }
}

fn run_program(cfg: &Arc<Config>)
{
    let mut app = App::new();
    let mut early_reactors = Vec::new();
    if cfg.plugin_late
    {
        // `App::add_reactor` before `ReactPlugin` (a legal order: the extension methods set up what they need); the
        // trigger entities are spawned first so that entity-scoped triggers can name them
        for i in 0..cfg.n_ents
        {
            let e = app.world_mut().spawn_empty().id();
            with_ctx(|x| { x.names.insert(e, Name::Ent(i)); x.ents.push(e); });
        }
        early_reactors = add_app_reactors(&mut app, cfg, true);
    }
    app.add_plugins(ReactPlugin);
    if let Some((_, chained)) = cfg.frame
    {
        if chained { app.add_systems(Update, (slot_system::<0>, slot_system::<1>, slot_system::<2>).chain()); }
        else { app.add_systems(Update, (slot_system::<0>, slot_system::<1>, slot_system::<2>)); }
    }
    app.world_mut().insert_react_resource(RA(0));

    // entities
    for i in 0..(if cfg.plugin_late { 0 } else { cfg.n_ents })
    {
        let e = app.world_mut().spawn_empty().id();
        with_ctx(|x| { x.names.insert(e, Name::Ent(i)); x.ents.push(e); });
    }
    for (child, parent) in cfg.children.iter()
    {
        let (c, p) = with_ctx(|x| (x.ents[*child as usize], x.ents[*parent as usize]));
        app.world_mut().entity_mut(p).add_child(c);
    }
    if cfg.mirror_observer
    {
        let (e0, e1) = with_ctx(|x| (x.ents[0], x.ents[1]));
        app.world_mut().add_observer(move |t: Trigger<OnInsert, React<CA>>, q: Query<&React<CA>>, mut c: Commands| {
            if t.entity() != e0 { return; }
            let Ok(v) = q.get(e0).map(|r| *r.get()) else { return };
            if c.get_entity(e1).is_none() { return; }
            c.react().insert(e1, v);
        });
    }
    // auto-despawn signals held by the harness
    with_ctx(|x| x.signals = (0..cfg.n_ents).map(|_| None).collect());
    let mut prepared: Vec<Option<AutoDespawnSignal>> = (0..cfg.n_ents).map(|_| None).collect();
    for e in cfg.auto_ents.iter().chain(cfg.actor_signals.iter().map(|(_, e)| e))
    {
        if prepared[*e as usize].is_some() { continue; }
        let ent = with_ctx(|x| x.ents[*e as usize]);
        prepared[*e as usize] = Some(app.world().resource::<AutoDespawner>().prepare(ent));
    }
    for e in cfg.auto_ents.iter()
    {
        let sig = prepared[*e as usize].clone();
        with_ctx(|x| x.signals[*e as usize] = sig);
    }
    // actors (a closure may capture clones of signals)
    for (i, v) in cfg.actors.iter().enumerate()
    {
        let sigs: Vec<AutoDespawnSignal> = cfg.actor_signals.iter().filter(|(a, _)| *a as usize == i)
            .filter_map(|(_, e)| prepared[*e as usize].clone()).collect();
        spawn_actor_world(app.world_mut(), i as ActorId, *v, sigs);
        with_ctx(|x| x.actors_ready |= 1 << i);
    }
    drop(prepared);
    if !cfg.plugin_late { add_app_reactors(&mut app, cfg, false); }
    // (all of them are registered already: the tables are compared once, after the last one has been presented)
    let n_early = early_reactors.len();
    for (k, (cmd, issued, ent, variant, id)) in early_reactors.into_iter().enumerate()
    {
        push(TEv::Top{ cmd, issued });
        finish_app_reactor(&mut app, cmd, ent, variant, id, k + 1 == n_early);
    }
    if let Some(variant) = cfg.ewr
    {
        let id = cfg.ewr_actor().unwrap();
        app.add_entity_reactor(HarnessEwr(id, variant));
        let ent = hooks::entity_world_reactor_system::<HarnessEwr>(app.world()).map(|s| *s).unwrap_or(Entity::PLACEHOLDER);
        with_ctx(|x| {
            x.names.insert(ent, Name::Actor(id));
            x.actors.push(ActorRt{ entity: ent, variant, runs: 0 });
            x.actors_ready |= 1 << id;
        });
    }
    install_sink();

    // setup ops
    for (i, op) in cfg.setup.iter().enumerate()
    {
        with_ctx(|x| x.mark_used_setup(op));
        top_level(&mut app, *op, Issuer::Setup, i as u16, false);
    }
    // fixed top-level ops
    let mut idx = 0u16;
    for op in cfg.fixed_top.iter()
    {
        with_ctx(|x| { x.mark_used(op); x.tops.push(*op); });
        top_level(&mut app, *op, Issuer::Top, idx, cfg.update_after_top);
        idx += 1;
    }
    // frame mode: chosen ops are issued by Update systems, one App::update() per frame
    if let Some((size, _)) = cfg.frame
    {
        for f in 0..cfg.max_top
        {
            let mut any = false;
            with_ctx(|x| x.slots = vec![None, None, None]);
            for sl in 0..size.min(3)
            {
                let op = with_ctx(|x| {
                    let alphabet = x.cfg.top.clone();
                    x.choose_op(&alphabet, Where::Top((f * 3 + sl) as u16))
                });
                let Some(op) = op else { break };
                with_ctx(|x| { x.tops.push(op); x.slots[sl as usize] = Some((op, idx)); });
                idx += 1;
                any = true;
            }
            if !any { break; }
            app.update();
            quiescent(app.world_mut());
        }
        push(TEv::Value{ what: "teardown".into(), value: 0 });
        drop(app);
        return;
    }
    // chosen top-level ops
    for k in 0..cfg.max_top
    {
        let op = with_ctx(|x| {
            let alphabet = x.cfg.top.clone();
            x.choose_op(&alphabet, Where::Top(k as u16))
        });
        let Some(op) = op else { break };
        with_ctx(|x| x.tops.push(op));
        top_level(&mut app, op, Issuer::Top, idx, cfg.update_after_top);
        idx += 1;
    }
    if !cfg.final_ops.is_empty()
    {
        push(TEv::Value{ what: "probe-start".into(), value: 0 });
        for op in cfg.final_ops.iter()
        {
            top_level(&mut app, *op, Issuer::Top, idx, false);
            idx += 1;
        }
    }
    if cfg.final_gc
    {
        top_level(&mut app, Op::Gc, Issuer::Top, idx, false);
        top_level(&mut app, Op::Poll, Issuer::Top, idx + 1, false);
        top_level(&mut app, Op::Gc, Issuer::Top, idx + 2, false);
    }

    // Dropping the App drops payloads still alive; record where that starts.
    push(TEv::Value{ what: "teardown".into(), value: 0 });
    drop(app);
}

impl Ctx
{
    /// Setup ops do not break symmetry unless they name something.
    pub fn mark_used_setup(&mut self, _op: &Op) {}
}

/// Runs one program (given as forced choice prefix) on a fresh App.
pub fn execute(cfg: &Arc<Config>, forced: Vec<u32>) -> Execution
{
    CTX.with(|c| *c.borrow_mut() = Some(Ctx::new(cfg.clone(), forced)));
    let cfg2 = cfg.clone();
    let result = std::panic::catch_unwind(std::panic::AssertUnwindSafe(move || run_program(&cfg2)));
    hooks::set_sink(None);
    let panicked = result.is_err();
    if let Err(e) = result
    {
        let msg = if let Some(s) = e.downcast_ref::<&str>() { s.to_string() }
            else if let Some(s) = e.downcast_ref::<String>() { s.clone() }
            else { "panic".to_string() };
        push(TEv::Panic(msg));
    }
    let ctx = CTX.with(|c| c.borrow_mut().take()).expect("context vanished");
    Execution{
        trace: ctx.trace,
        record: ctx.chooser.record,
        tops: ctx.tops,
        scripts: ctx.scripts,
        chooser_error: ctx.chooser.error,
        machinery_error: ctx.machinery_error,
        panicked,
    }
}
