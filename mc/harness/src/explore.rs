//! Stateless exhaustive exploration of choice sequences (odometer DFS), split dynamically over worker threads.

use crate::ctx::Config;
use crate::universe::{execute, Execution};

use std::collections::HashSet;
use std::sync::atomic::{AtomicBool, AtomicUsize, Ordering};
use std::sync::{Arc, Mutex};
use std::time::{Duration, Instant};

//-------------------------------------------------------------------------------------------------------------------

#[derive(Clone, Debug)]
pub struct Violation
{
    pub property: String,
    pub rule: String,
    pub detail: String,
    /// Stable identifier of the failing shape (used to match known findings).
    pub signature: String,
}

/// What a judge returns for one execution.
#[derive(Default)]
pub struct Verdict
{
    pub violations: Vec<Violation>,
    /// Hashes of abstract states / monitor configurations visited.
    pub state_hashes: Vec<u64>,
    /// Number of spec-automaton steps taken.
    pub transitions: u64,
    /// Hash of the canonical observable outcome.
    pub outcome_hash: u64,
    /// At least one reaction / system run happened.
    pub nontrivial: bool,
    /// Informational counters.
    pub info: Vec<(&'static str, u64)>,
}

pub trait Judge: Send + Sync
{
    fn judge(&self, cfg: &Arc<Config>, ex: &Execution) -> Verdict;
}

#[derive(Clone, Debug)]
pub struct FoundViolation
{
    pub violation: Violation,
    pub choices: Vec<u32>,
    pub config: String,
}

#[derive(Default)]
pub struct Stats
{
    pub executions: u64,
    pub transitions: u64,
    pub states: HashSet<u64>,
    pub outcomes: HashSet<u64>,
    pub nontrivial_outcomes: HashSet<u64>,
    pub violations: Vec<FoundViolation>,
    pub violation_count: u64,
    pub info: std::collections::BTreeMap<&'static str, u64>,
    pub samples: Vec<Vec<u32>>,
    pub max_depth: usize,
    pub capped: bool,
    pub machinery_errors: Vec<String>,
}

impl Stats
{
    pub fn merge(&mut self, o: Stats)
    {
        self.executions += o.executions;
        self.transitions += o.transitions;
        self.states.extend(o.states);
        self.outcomes.extend(o.outcomes);
        self.nontrivial_outcomes.extend(o.nontrivial_outcomes);
        self.violation_count += o.violation_count;
        for v in o.violations { if self.violations.len() < 64 { self.violations.push(v); } }
        for (k, v) in o.info { *self.info.entry(k).or_default() += v; }
        for s in o.samples { if self.samples.len() < 8 { self.samples.push(s); } }
        self.max_depth = self.max_depth.max(o.max_depth);
        self.capped |= o.capped;
        self.machinery_errors.extend(o.machinery_errors);
    }
}

pub struct ExploreOpts
{
    pub threads: usize,
    pub deadline: Option<Instant>,
    /// Stop after this many executions (0 = unlimited). A hit is reported as a cap.
    pub max_executions: u64,
}

impl Default for ExploreOpts
{
    fn default() -> Self
    {
        let threads = std::thread::available_parallelism().map(|n| n.get()).unwrap_or(4).min(16);
        ExploreOpts{ threads, deadline: None, max_executions: 0 }
    }
}

struct Shared
{
    queue: Mutex<Vec<Vec<u32>>>,
    queued: AtomicUsize,
    active: AtomicUsize,
    stop: AtomicBool,
    executions: AtomicUsize,
}

fn record_execution(
    cfg: &Arc<Config>,
    judge: &dyn Judge,
    ex: &Execution,
    stats: &mut Stats,
)
{
    stats.executions += 1;
    if let Some(e) = &ex.chooser_error { stats.machinery_errors.push(format!("chooser: {e}")); }
    if let Some(e) = &ex.machinery_error { stats.machinery_errors.push(format!("harness: {e}")); }
    let verdict = judge.judge(cfg, ex);
    stats.transitions += verdict.transitions;
    stats.states.extend(verdict.state_hashes.iter().copied());
    stats.outcomes.insert(verdict.outcome_hash);
    if verdict.nontrivial { stats.nontrivial_outcomes.insert(verdict.outcome_hash); }
    for (k, v) in verdict.info { *stats.info.entry(k).or_default() += v; }
    stats.max_depth = stats.max_depth.max(ex.record.len());
    let choices: Vec<u32> = ex.record.iter().map(|(c, _)| *c).collect();
    if stats.samples.len() < 8 && verdict.nontrivial && (stats.executions % 97 == 1 || stats.samples.is_empty())
    {
        stats.samples.push(choices.clone());
    }
    for v in verdict.violations
    {
        stats.violation_count += 1;
        // keep at most one example per (property, signature)
        if stats.violations.iter().any(|f| f.violation.property == v.property && f.violation.signature == v.signature)
        {
            // keep the shortest example
            if let Some(f) = stats.violations.iter_mut()
                .find(|f| f.violation.property == v.property && f.violation.signature == v.signature)
            {
                if choices.len() < f.choices.len() { f.choices = choices.clone(); f.violation = v; }
            }
            continue;
        }
        if stats.violations.len() < 64
        {
            stats.violations.push(FoundViolation{ violation: v, choices: choices.clone(), config: cfg.name.clone() });
        }
    }
}

fn worker(cfg: Arc<Config>, judge: Arc<dyn Judge>, shared: Arc<Shared>, opts_deadline: Option<Instant>, max_exec: u64,
    threads: usize) -> Stats
{
    let mut stats = Stats::default();
    loop
    {
        // fetch a unit
        let unit = {
            let mut q = shared.queue.lock().unwrap();
            let u = q.pop();
            if u.is_some()
            {
                shared.active.fetch_add(1, Ordering::SeqCst);
                shared.queued.fetch_sub(1, Ordering::SeqCst);
            }
            u
        };
        let Some(prefix) = unit else
        {
            if shared.active.load(Ordering::SeqCst) == 0 && shared.queued.load(Ordering::SeqCst) == 0 { break; }
            if shared.stop.load(Ordering::SeqCst) { break; }
            if std::env::var("VERIF_TRACE_IDLE").is_ok()
            {
                eprintln!("idle: active={} queued={} stop={} qlen={}", shared.active.load(Ordering::SeqCst),
                    shared.queued.load(Ordering::SeqCst), shared.stop.load(Ordering::SeqCst), shared.queue.lock().unwrap().len());
                std::thread::sleep(Duration::from_millis(500));
            }
            std::thread::sleep(Duration::from_micros(200));
            continue;
        };

        // DFS over the unit
        let base = prefix.len();
        let mut path = prefix;
        let mut limits: Vec<u32> = Vec::new();
        loop
        {
            if shared.stop.load(Ordering::Relaxed) { stats.capped = true; break; }
            if std::env::var("VERIF_TRACE_PATHS").is_ok() { eprintln!("PATH {:?}", path); }
            let ex = match std::panic::catch_unwind(std::panic::AssertUnwindSafe(|| execute(&cfg, path.clone())))
            {
                Ok(ex) => ex,
                Err(e) =>
                {
                    let msg = if let Some(s) = e.downcast_ref::<&str>() { s.to_string() }
                        else if let Some(s) = e.downcast_ref::<String>() { s.clone() } else { "?".into() };
                    stats.machinery_errors.push(format!("executor panicked on {:?} of {}: {}", path, cfg.name, msg));
                    shared.stop.store(true, Ordering::SeqCst);
                    break;
                }
            };
            let n = shared.executions.fetch_add(1, Ordering::Relaxed) as u64 + 1;
            // replay integrity
            if ex.record.len() < path.len()
            {
                stats.machinery_errors.push(format!("execution shorter than its forced prefix: {:?}", path));
                break;
            }
            for (i, c) in path.iter().enumerate()
            {
                if ex.record[i].0 != *c
                {
                    stats.machinery_errors.push(format!("replay diverged at {i}: {:?}", path));
                }
            }
            {
                // a panic in the judge is a machinery error, never a verdict
                let r = std::panic::catch_unwind(std::panic::AssertUnwindSafe(|| {
                    record_execution(&cfg, judge.as_ref(), &ex, &mut stats);
                }));
                if r.is_err()
                {
                    stats.machinery_errors.push(format!("judge panicked on choices {:?} of {}",
                        ex.record.iter().map(|(c, _)| *c).collect::<Vec<_>>(), cfg.name));
                }
            }
            if !stats.machinery_errors.is_empty() { shared.stop.store(true, Ordering::SeqCst); break; }
            if (max_exec > 0 && n >= max_exec) || opts_deadline.map(|d| (n % 64 == 0) && Instant::now() > d).unwrap_or(false)
            {
                shared.stop.store(true, Ordering::SeqCst);
                stats.capped = true;
                break;
            }

            let rec = &ex.record;
            let m = rec.len();
            // limits for newly discovered positions
            limits.truncate(path.len().saturating_sub(base));
            for j in (base + limits.len())..m { limits.push(rec[j].1); }

            // donate work when the queue runs dry
            if shared.queued.load(Ordering::Relaxed) < threads
            {
                for i in base..m
                {
                    if rec[i].0 + 1 < limits[i - base]
                    {
                        let mut q = shared.queue.lock().unwrap();
                        for c in (rec[i].0 + 1)..limits[i - base]
                        {
                            let mut p: Vec<u32> = rec[..i].iter().map(|(c, _)| *c).collect();
                            p.push(c);
                            q.push(p);
                            shared.queued.fetch_add(1, Ordering::SeqCst);
                        }
                        limits[i - base] = rec[i].0 + 1;
                        break;
                    }
                }
            }

            // next path: increment the deepest incrementable position
            let mut next: Option<usize> = None;
            for i in (base..m).rev()
            {
                if rec[i].0 + 1 < limits[i - base] { next = Some(i); break; }
            }
            let Some(i) = next else { break };
            path = rec[..i].iter().map(|(c, _)| *c).collect();
            path.push(rec[i].0 + 1);
            limits.truncate(i + 1 - base);
        }
        shared.active.fetch_sub(1, Ordering::SeqCst);
    }
    stats
}

/// Explores every choice sequence of `cfg`.
pub fn explore(cfg: Arc<Config>, judge: Arc<dyn Judge>, opts: &ExploreOpts) -> Stats
{
    let shared = Arc::new(Shared{
        queue: Mutex::new(vec![Vec::new()]),
        queued: AtomicUsize::new(1),
        active: AtomicUsize::new(0),
        stop: AtomicBool::new(false),
        executions: AtomicUsize::new(0),
    });
    let mut handles = Vec::new();
    for _ in 0..opts.threads.max(1)
    {
        let cfg = cfg.clone();
        let judge = judge.clone();
        let shared = shared.clone();
        let deadline = opts.deadline;
        let max_exec = opts.max_executions;
        let threads = opts.threads.max(1);
        handles.push(std::thread::Builder::new().stack_size(16 << 20).spawn(move || {
            let shared2 = shared.clone();
            match std::panic::catch_unwind(std::panic::AssertUnwindSafe(move || worker(cfg, judge, shared, deadline, max_exec, threads)))
            {
                Ok(s) => s,
                Err(e) =>
                {
                    let msg = if let Some(s) = e.downcast_ref::<&str>() { s.to_string() }
                        else if let Some(s) = e.downcast_ref::<String>() { s.clone() } else { "?".into() };
                    shared2.stop.store(true, Ordering::SeqCst);
                    let mut st = Stats::default();
                    st.machinery_errors.push(format!("explorer worker panicked: {msg}"));
                    st
                }
            }
        }).unwrap());
    }
    let mut total = Stats::default();
    for h in handles
    {
        match h.join()
        {
            Ok(s) => total.merge(s),
            Err(_) => total.machinery_errors.push("worker thread panicked".into()),
        }
    }
    total
}
