//! C17: syscall family -- keyed persistent state, effects applied on return.
//!
//! Explicit-state search over sequences of calls through `syscall`, `named_syscall` and `spawned_syscall` over several
//! keys, each call optionally making nested calls from the commands it queues, against a reference map
//! key -> counter.

use crate::es::*;
use bevy::prelude::*;
use bevy_cobweb::prelude::*;
use std::cell::RefCell;
use std::collections::BTreeMap;

#[derive(Clone, Copy, Debug, PartialEq, Eq, Hash, PartialOrd, Ord)]
pub enum Target
{
    /// `syscall(world, x, f)` / `syscall(world, x, g)`
    Sys(u8),
    /// `named_syscall(world, name, x, f|g)`
    Named(u8, u8),
    /// `spawned_syscall(world, id, x)` for spawned system 0 (runs f) or 1 (runs g)
    Spawned(u8),
    /// a `SysId` whose entity does not exist
    SpawnedMissing,
    /// `World::syscall_once(x, f)`: runs `f` on fresh state that is not cached; the state cached for `Sys(0)` is
    /// neither used nor touched.
    SysOnce,
    /// A third ordinary function h (unit output, as the `Commands` extension requires), called directly
    /// (`syscall(world, x, h)`, `false`) or through `Commands::syscall(x, h)` followed by a flush (`true`): one key, two
    /// entry points.
    SysH(bool),
}

/// A top-level call and the chain of nested calls made from queued commands (each from the previous one's command).
#[derive(Clone, Debug, PartialEq, Eq, Hash, PartialOrd, Ord)]
pub struct Op17(pub Vec<Target>);

#[derive(Clone, Debug, PartialEq, Eq, Hash)]
pub enum Rec
{
    /// `added`: entities matched by the system's `Added<Marker>` query (its change-detection cursor is system state)
    Run{ func: u8, local: u32, input: u32, added: u32 },
    Ret{ target: Target, result: Option<u32> },
    /// A command queued by a run has been applied.
    Applied,
}

thread_local!
{
    static LOG: RefCell<Vec<Rec>> = RefCell::new(Vec::new());
    /// Remaining nested calls: (target, input).
    static PLAN: RefCell<Vec<(Target, u32)>> = RefCell::new(Vec::new());
    static IDS: RefCell<Vec<SysId>> = RefCell::new(Vec::new());
}

#[derive(Resource, Default)]
struct AppliedCount(u32);

/// Spawned by every applied command; counted by every system through an `Added<Marker>` filter.
#[derive(Component)]
struct Marker;

fn body(func: u8, x: u32, local: &mut u32, added: u32, c: &mut Commands) -> u32
{
    *local += 1;
    LOG.with(|l| l.borrow_mut().push(Rec::Run{ func, local: *local, input: x, added }));
    c.queue(|w: &mut World| {
        w.resource_mut::<AppliedCount>().0 += 1;
        w.spawn(Marker);
        LOG.with(|l| l.borrow_mut().push(Rec::Applied));
        // nested call, made from a command of the enclosing call
        let next = PLAN.with(|p| { let mut p = p.borrow_mut(); if p.is_empty() { None } else { Some(p.remove(0)) } });
        if let Some((t, x)) = next { call(w, t, x); }
    });
    *local * 1000 + x
}

fn sys_f(In(x): In<u32>, mut local: Local<u32>, q: Query<(), Added<Marker>>, mut c: Commands) -> u32
{
    body(0, x, &mut local, q.iter().count() as u32, &mut c)
}
/// Second ordinary flavour: its deferred parameter (`Commands`) is nested in a `ParamSet` (Bevy 0.15 does not report
/// such a system as `has_deferred()`; its commands must be applied on return all the same).
fn sys_g(In(x): In<u32>, mut local: Local<u32>, mut set: ParamSet<(Commands, Query<(), Added<Marker>>)>) -> u32
{
    let added = set.p1().iter().count() as u32;
    let mut c = set.p0();
    body(1, x, &mut local, added, &mut c)
}
fn sys_h(In(x): In<u32>, mut local: Local<u32>, q: Query<(), Added<Marker>>, mut c: Commands)
{
    body(4, x, &mut local, q.iter().count() as u32, &mut c);
}
/// Exclusive flavour: its parameter state (`Local`, `QueryState`) is rebuilt by Bevy whenever the system is initialised
/// again, and its commands go through the world's own queue.
fn sys_x(In(x): In<u32>, world: &mut World, mut local: Local<u32>, q: &mut QueryState<(), Added<Marker>>) -> u32
{
    let added = q.iter(world).count() as u32;
    let mut c = world.commands();
    body(2, x, &mut local, added, &mut c)
}

/// A spawned system that despawns its own entity (through its commands) during the call: the call still ran it once
/// and must return its output; afterwards the id is a missing system.
fn sys_suicide(In(x): In<u32>, mut local: Local<u32>, q: Query<(), Added<Marker>>, mut c: Commands) -> u32
{
    let own = IDS.with(|ids| ids.borrow()[3]);
    let r = body(3, x, &mut local, q.iter().count() as u32, &mut c);
    c.entity(own.entity()).despawn();
    r
}

fn call(world: &mut World, t: Target, x: u32)
{
    let result: Option<u32> = match t
    {
        Target::Sys(0) => Some(syscall(world, x, sys_f)),
        Target::Sys(1) => Some(syscall(world, x, sys_g)),
        Target::Sys(_) => Some(syscall(world, x, sys_x)),
        Target::Named(n, 0) => Some(named_syscall(world, if n == 0 { "n0" } else { "n1" }, x, sys_f)),
        Target::Named(n, 1) => Some(named_syscall(world, if n == 0 { "n0" } else { "n1" }, x, sys_g)),
        Target::Named(n, _) => Some(named_syscall(world, if n == 0 { "n0" } else { "n1" }, x, sys_x)),
        Target::Spawned(i) =>
        {
            let id = IDS.with(|ids| ids.borrow()[i as usize]);
            spawned_syscall::<In<u32>, u32>(world, id, x).ok()
        }
        Target::SpawnedMissing =>
        {
            let id = IDS.with(|ids| ids.borrow()[4]);
            spawned_syscall::<In<u32>, u32>(world, id, x).ok()
        }
        Target::SysOnce => Some(world.syscall_once(x, sys_f)),
        Target::SysH(false) => { syscall(world, x, sys_h); None }
        Target::SysH(true) => { world.commands().syscall(x, sys_h); world.flush(); None }
    };
    LOG.with(|l| l.borrow_mut().push(Rec::Ret{ target: t, result }));
}

//-------------------------------------------------------------------------------------------------------------------
// reference model

#[derive(Clone, Debug, Default, PartialEq, Eq, Hash)]
pub struct Model17
{
    pub counters: BTreeMap<Target, u32>,
    pub applied: u32,
    /// Change-detection cursor per key: how many markers existed at the point up to which the key's system has looked
    /// (ordinary systems: the start of their previous run; exclusive systems: the return of their previous run).
    pub seen: BTreeMap<Target, u32>,
    /// The self-despawning spawned system has run (its entity is gone).
    pub suicide_done: bool,
}

fn func_of(t: Target) -> u8
{
    match t { Target::Sys(f) => f.min(2), Target::Named(_, f) => f.min(2), Target::Spawned(i) => i.min(3), Target::SpawnedMissing => 0, Target::SysOnce => 0, Target::SysH(_) => 4 }
}

impl Model17
{
    /// Expected log of a call chain.
    fn call(&mut self, chain: &[(Target, u32)], active: &mut Vec<Target>, log: &mut Vec<Rec>)
    {
        let Some(((t, x), rest)) = chain.split_first().map(|(a, b)| (*a, b)) else { return };
        match t
        {
            Target::SpawnedMissing =>
            {
                log.push(Rec::Ret{ target: t, result: None });
                // nothing ran, so nothing queued the rest of the chain
                return;
            }
            Target::Spawned(_) if active.contains(&t) =>
            {
                log.push(Rec::Ret{ target: t, result: None });
                return;
            }
            Target::Spawned(3) if self.suicide_done =>
            {
                log.push(Rec::Ret{ target: t, result: None });
                return;
            }
            _ => {}
        }
        // the `Commands` flavour shares its key (and therefore its state) with the direct flavour of the same function
        let key = if let Target::SysH(_) = t { Target::SysH(false) } else { t };
        let recursive = active.contains(&key) || t == Target::SysOnce;
        let exclusive = func_of(t) == 2;
        let markers = self.applied;
        let (local, added) = if recursive
        {
            // documented: a recursive invocation runs on fresh state that does not persist
            (1, markers)
        }
        else
        {
            let c = self.counters.entry(key).or_insert(0);
            *c += 1;
            let seen = self.seen.get(&key).copied().unwrap_or(0);
            if !exclusive { self.seen.insert(key, markers); }
            (*c, markers - seen)
        };
        log.push(Rec::Run{ func: func_of(t), local, input: x, added });
        if t == Target::Spawned(3) { self.suicide_done = true; }
        // the run's command is applied before the call returns, and makes the nested call
        self.applied += 1;
        log.push(Rec::Applied);
        active.push(key);
        self.call(rest, active, log);
        active.pop();
        // an exclusive system's cursor moves to the point of its return
        if exclusive && !recursive { let m = self.applied; self.seen.insert(key, m); }
        log.push(Rec::Ret{ target: t, result: if let Target::SysH(_) = t { None } else { Some(local * 1000 + x) } });
    }
}

pub fn inputs(op: &Op17, depth: usize) -> Vec<(Target, u32)>
{
    op.0.iter().enumerate().map(|(i, t)| (*t, (depth * 10 + i + 1) as u32)).collect()
}

#[derive(Clone, Debug, PartialEq, Eq, Hash)]
pub struct Key17
{
    model: Model17,
    observed_applied: u32,
    /// Entities in the implementation's world besides the markers (spawned systems, anything a call family leaves
    /// behind): histories are merged only if the implementation agrees on it as well as the model.
    other_entities: i64,
}

pub fn run17(hist: &[Op17]) -> StepResult<Key17>
{
    let mut world = World::new();
    world.init_resource::<AppliedCount>();
    let id0 = spawn_system(&mut world, sys_f);
    let id1 = spawn_system(&mut world, sys_g);
    let id2 = spawn_system(&mut world, sys_x);
    let id3 = spawn_system(&mut world, sys_suicide);
    let dead = world.spawn_empty().id();
    world.despawn(dead);
    IDS.with(|ids| *ids.borrow_mut() = vec![id0, id1, id2, id3, SysId::new(dead)]);
    let mut model = Model17::default();
    let mut violations = Vec::new();
    let mut stop = false;

    for (k, op) in hist.iter().enumerate()
    {
        let chain = inputs(op, k);
        LOG.with(|l| l.borrow_mut().clear());
        PLAN.with(|p| *p.borrow_mut() = chain[1..].to_vec());
        call(&mut world, chain[0].0, chain[0].1);
        // a nested call that never happened leaves its plan behind
        let leftover = PLAN.with(|p| p.borrow().len());
        let got = LOG.with(|l| l.borrow().clone());
        let mut exp = Vec::new();
        model.call(&chain, &mut Vec::new(), &mut exp);
        let applied_now = world.resource::<AppliedCount>().0;
        if k + 1 == hist.len()
        {
            if got != exp
            {
                let sig = classify17(&exp, &got);
                violations.push((sig, format!("call chain {:?}: expected {:?}, observed {:?}", chain, exp, got)));
                stop = true;
            }
            if applied_now != model.applied
            {
                violations.push(("commands-not-applied-on-return".into(),
                    format!("after {:?}: {} queued commands applied, expected {}", chain, applied_now, model.applied)));
                stop = true;
            }
            let _ = leftover;
        }
    }
    let observed_applied = world.resource::<AppliedCount>().0;
    let other_entities = world.entities().len() as i64 - observed_applied as i64;
    StepResult{ key: Key17{ model, observed_applied, other_entities }, violations, stop }
}

fn classify17(exp: &[Rec], got: &[Rec]) -> String
{
    let runs = |v: &[Rec]| v.iter().filter(|r| matches!(r, Rec::Run{ .. })).count();
    if runs(exp) != runs(got) { return format!("run-count:{}-vs-{}", runs(exp), runs(got)); }
    // first difference
    for (e, g) in exp.iter().zip(got.iter())
    {
        if e != g
        {
            return match (e, g)
            {
                (Rec::Run{ local: a, .. }, Rec::Run{ local: b, .. }) if a != b => "state-not-persistent-or-shared".into(),
                (Rec::Run{ func: f1, input: i1, added: a, .. }, Rec::Run{ func: f2, input: i2, added: b, .. }) if f1 == f2 && i1 == i2 && a != b =>
                    "change-detection-cursor-not-persistent".into(),
                (Rec::Run{ .. }, Rec::Run{ .. }) => "wrong-input-or-system".into(),
                (Rec::Ret{ .. }, Rec::Ret{ .. }) => "wrong-output".into(),
                (Rec::Applied, _) | (_, Rec::Applied) => "commands-applied-late".into(),
                _ => "order".into(),
            };
        }
    }
    "length".into()
}

pub fn targets() -> Vec<Target>
{
    vec![
        Target::Sys(0), Target::Sys(1), Target::Sys(2), Target::Named(0, 0), Target::Named(1, 0), Target::Named(0, 1),
        Target::Named(0, 2), Target::Spawned(0), Target::Spawned(1), Target::Spawned(2), Target::Spawned(3), Target::SpawnedMissing,
        Target::SysOnce, Target::SysH(false), Target::SysH(true),
    ]
}

/// Symmetry breaking (restricted growth): keys that differ only by an interchangeable label may be used only after their
/// predecessor has been used: g after f for `syscall`, name n1 after n0, the second ordinary spawned system after the
/// first, (n0, g) after (n0, f). Renaming the labels maps every pruned sequence onto an explored one.
fn predecessor(t: Target) -> Option<Target>
{
    match t
    {
        Target::Sys(1) => Some(Target::Sys(0)),
        Target::Named(1, 0) => Some(Target::Named(0, 0)),
        Target::Named(0, 1) => Some(Target::Named(0, 0)),
        Target::Spawned(1) => Some(Target::Spawned(0)),
        _ => None,
    }
}

fn canonical(hist: &[Op17], op: &Op17) -> bool
{
    let mut used: Vec<Target> = hist.iter().flat_map(|o| o.0.iter().copied()).collect();
    for t in op.0.iter()
    {
        if let Some(p) = predecessor(*t) { if !used.contains(&p) { return false; } }
        used.push(*t);
    }
    true
}

pub fn enabled17(nesting: usize) -> impl Fn(&[Op17]) -> Vec<Op17> + Sync
{
    let all = enabled17_all(nesting);
    move |hist: &[Op17]| all(hist).into_iter().filter(|op| canonical(hist, op)).collect()
}

pub fn enabled17_all(nesting: usize) -> impl Fn(&[Op17]) -> Vec<Op17> + Sync
{
    move |_hist: &[Op17]| {
        let ts = targets();
        let mut v: Vec<Op17> = ts.iter().map(|t| Op17(vec![*t])).collect();
        if nesting >= 2
        {
            for a in ts.iter() { if *a == Target::SpawnedMissing { continue; } for b in ts.iter() { v.push(Op17(vec![*a, *b])); } }
        }
        if nesting >= 3
        {
            // three levels: restricted to the collision-prone shapes (same key twice in the chain)
            for a in ts.iter()
            {
                if *a == Target::SpawnedMissing { continue; }
                for b in ts.iter()
                {
                    if *b == Target::SpawnedMissing { continue; }
                    v.push(Op17(vec![*a, *b, *a]));
                    if a != b { v.push(Op17(vec![*a, *b, *b])); }
                }
            }
        }
        v
    }
}
