//! Judge built on the spec monitor, plus the C11 differential probe.

use crate::ctx::Config;
use crate::explore::{Judge, Verdict, Violation};
use crate::model::*;
use crate::monitor::run_monitor;
use crate::universe::Execution;
use std::collections::HashMap;
use std::sync::Arc;

pub struct MonitorJudge
{
    /// Canonical trace segment of the probe tree when nothing ran before it.
    pub probe_baseline: Option<Vec<String>>,
}

impl MonitorJudge
{
    pub fn new() -> Self { MonitorJudge{ probe_baseline: None } }
}

/// Canonical form of the probe tree's trace segment: everything the probe can observe, with payload ids and
/// bookkeeping entity ids renumbered from the start of the segment, and without state that earlier trees change
/// legitimately (liveness / component samples, registration tables).
pub fn probe_segment(trace: &[TEv]) -> Option<Vec<String>>
{
    let start = trace.iter().position(|e| matches!(e, TEv::Value{ what, .. } if what == "probe-start"))?;
    let mut out = Vec::new();
    let mut pmap: HashMap<PayloadId, u32> = HashMap::new();
    let mut emap: HashMap<(u32, u32), u32> = HashMap::new();
    let mut np = |p: PayloadId, m: &mut HashMap<PayloadId, u32>| -> u32 { let n = m.len() as u32; *m.entry(p).or_insert(n) };
    let mut nn = |n: Name, m: &mut HashMap<(u32, u32), u32>| -> String {
        match n
        {
            Name::Other(i, g) => { let k = m.len() as u32; format!("X{}", *m.entry((i, g)).or_insert(k)) }
            other => format!("{:?}", other),
        }
    };
    // top-level command indices are renumbered from the first probe command
    let top_base: u16 = trace[start + 1..].iter().find_map(|e| match e { TEv::Top{ cmd, .. } => Some(cmd.idx), _ => None }).unwrap_or(0);
    let nc = |c: &CmdId| -> String {
        match c.by { Issuer::Top => format!("Top#{}", c.idx.wrapping_sub(top_base)), other => format!("{:?}#{}", other, c.idx) }
    };
    for ev in trace[start + 1..].iter()
    {
        match ev
        {
            TEv::Top{ cmd, issued } | TEv::Issue{ cmd, issued } =>
                out.push(format!("issue {} {:?} p={:?}", nc(cmd), issued.op, issued.payload.map(|p| np(p, &mut pmap)))),
            TEv::Applied{ cmd, .. } => out.push(format!("applied {}", nc(cmd))),
            TEv::RunEnter{ id, local_ctr, closure_ctr, readers, .. } =>
            {
                let mut r = readers.clone();
                r.sys = r.sys.map(|p| np(p, &mut pmap));
                for b in r.bcast.iter_mut() { *b = b.map(|p| np(p, &mut pmap)); }
                for e in r.ent_ev.iter_mut() { *e = e.map(|(n, p)| (n, np(p, &mut pmap))); }
                out.push(format!("run {:?} {} {} {:?}", id, local_ctr, closure_ctr, r));
            }
            TEv::BodyExit{ id } => out.push(format!("exit {:?}", id)),
            TEv::DeferredEnd{ id, .. } => out.push(format!("end {:?}", id)),
            TEv::Drop(p) => out.push(format!("drop {}", np(*p, &mut pmap))),
            TEv::Hook(h) => match h
            {
                Hook::CommandApply{ kind, target, source, data } =>
                    out.push(format!("cmd {:?} {} {:?} {:?}", kind, nn(*target, &mut emap), source.map(|s| nn(s, &mut emap)), data.map(|d| nn(d, &mut emap)))),
                Hook::Gc => out.push("gc".to_string()),
                Hook::Scheduled{ kind, target, source } => out.push(format!("sched {:?} {} {}", kind, nn(*target, &mut emap), nn(*source, &mut emap))),
                Hook::RunnerEnter{ target, counter } => out.push(format!("enter {} {}", nn(*target, &mut emap), counter)),
                Hook::RunnerDecision{ target, decision } => out.push(format!("decide {} {:?}", nn(*target, &mut emap), decision)),
                Hook::RunnerBodyDone{ target } => out.push(format!("bodydone {}", nn(*target, &mut emap))),
                Hook::RunnerReinsert{ target, reinserted } => out.push(format!("reinsert {} {}", nn(*target, &mut emap), reinserted)),
                Hook::RunnerReplay{ parent, target } => out.push(format!("replay {} {}", nn(*parent, &mut emap), nn(*target, &mut emap))),
                Hook::RunnerDiscard{ target } => out.push(format!("discard {}", nn(*target, &mut emap))),
                Hook::RunnerExit{ target, counter } => out.push(format!("leave {} {}", nn(*target, &mut emap), counter)),
            },
            TEv::Quiescent{ snap, .. } => out.push(format!("quiet {} {} {:?} {:?} {} {} {} {}", snap.counter, snap.buffered, snap.prepared,
                snap.reacting, snap.despawn_handle_held, snap.cache_scratch, snap.data_entities, snap.sys_event_data)),
            TEv::Value{ what, .. } => { if what == "teardown" { break; } }
            TEv::CanaryDrop(_) => {}
            TEv::Panic(m) => out.push(format!("panic {m}")),
        }
    }
    Some(out)
}

impl Judge for MonitorJudge
{
    fn judge(&self, cfg: &Arc<Config>, ex: &Execution) -> Verdict
    {
        let out = run_monitor(cfg, &ex.trace);
        let mut violations = out.violations;
        if let Some(base) = &self.probe_baseline
        {
            match probe_segment(&ex.trace)
            {
                Some(seg) if seg != *base =>
                {
                    let at = seg.iter().zip(base.iter()).position(|(a, b)| a != b).unwrap_or(seg.len().min(base.len()));
                    violations.push(Violation{
                        property: "C11".into(),
                        rule: "R-differential".into(),
                        signature: "probe-tree-differs".into(),
                        detail: format!("the probe tree behaves differently after the explored trees than on a fresh world: \
                            first difference at event {at}: got {:?}, fresh world {:?}", seg.get(at), base.get(at)),
                    });
                }
                Some(_) => {}
                None =>
                {
                    violations.push(Violation{
                        property: "*".into(), rule: "probe".into(), signature: "probe-missing".into(),
                        detail: "probe tree did not run (execution ended early)".into(),
                    });
                }
            }
        }
        Verdict{
            violations,
            state_hashes: out.state_hashes,
            transitions: out.transitions,
            outcome_hash: out.outcome_hash,
            nontrivial: out.runs > 0,
            info: vec![
                ("runs", out.runs as u64),
                ("postponed", out.postponed as u64),
                ("aborted", out.aborted as u64),
                ("polled_runs", out.polled_runs as u64),
                ("cross_sender_reorder", out.cross_sender_reorder as u64),
                ("marks_reassigned_among_interchangeable_postponed", out.marks_reassigned as u64),
                ("max_depth_seen", out.max_depth as u64),
            ],
        }
    }
}
