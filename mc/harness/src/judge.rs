//! Judge built on the spec monitor.

use crate::ctx::Config;
use crate::explore::{Judge, Verdict};
use crate::monitor::run_monitor;
use crate::universe::Execution;
use std::sync::Arc;

pub struct MonitorJudge;

impl Judge for MonitorJudge
{
    fn judge(&self, cfg: &Arc<Config>, ex: &Execution) -> Verdict
    {
        let out = run_monitor(cfg, &ex.trace);
        Verdict{
            violations: out.violations,
            state_hashes: out.state_hashes,
            transitions: out.transitions,
            outcome_hash: out.outcome_hash,
            nontrivial: out.runs > 0,
            info: vec![
                ("runs", out.runs as u64),
                ("postponed", out.postponed as u64),
                ("aborted", out.aborted as u64),
                ("polled_runs", out.polled_runs as u64),
                ("cross_sender_reorder", out.cross_sender_reorder as u64),
                ("max_depth_seen", out.max_depth as u64),
            ],
        }
    }
}
