//! Runs a plan: exploration, determinism guard, known-findings classification, replay artefacts, evidence.

use crate::checks::*;
use crate::ctx::Config;
use crate::explore::*;
use crate::judge::MonitorJudge;
use crate::monitor::run_monitor;
use crate::universe::execute;

use serde_json::{json, Value};
use std::collections::BTreeMap;
use std::sync::Arc;
use std::time::{Duration, Instant};

pub const VERIF_DIR: &str = "/verif";

/// Where evidence and replay artefacts go (developer override for background runs; defaults to /verif).
pub fn out_dir() -> String { std::env::var("VERIF_OUT_DIR").unwrap_or_else(|_| VERIF_DIR.to_string()) }

//-------------------------------------------------------------------------------------------------------------------
// known findings

#[derive(Clone, Debug)]
pub struct Finding
{
    pub id: String,
    pub status: String,
    pub property: String,
    pub contains: Vec<String>,
    pub description: String,
}

pub fn load_findings() -> Result<Vec<Finding>, String>
{
    let path = format!("{VERIF_DIR}/known_findings.json");
    let text = match std::fs::read_to_string(&path)
    {
        Ok(t) => t,
        Err(_) => return Ok(Vec::new()),
    };
    let v: Value = serde_json::from_str(&text).map_err(|e| format!("{path}: {e}"))?;
    let mut out = Vec::new();
    for f in v["findings"].as_array().cloned().unwrap_or_default()
    {
        out.push(Finding{
            id: f["id"].as_str().unwrap_or("").to_string(),
            status: f["status"].as_str().unwrap_or("").to_string(),
            property: f["property"].as_str().unwrap_or("").to_string(),
            contains: f["signature_contains"].as_array().cloned().unwrap_or_default()
                .iter().filter_map(|s| s.as_str().map(|s| s.to_string())).collect(),
            description: f["description"].as_str().unwrap_or("").to_string(),
        });
    }
    Ok(out)
}

/// A violation is a known finding iff an entry with status `known` names its property and all of the entry's
/// signature fragments occur in the violation's signature. `fixed` entries suppress nothing.
pub fn classify<'a>(findings: &'a [Finding], v: &Violation) -> Option<&'a Finding>
{
    findings.iter().find(|f| {
        f.status == "known" && f.property == v.property && !f.contains.is_empty()
            && f.contains.iter().all(|c| v.signature.contains(c.as_str()))
    })
}

//-------------------------------------------------------------------------------------------------------------------

pub struct Outcome
{
    pub exit: i32,
}

fn env_u64(name: &str) -> Option<u64> { std::env::var(name).ok().and_then(|s| s.parse().ok()) }

fn write_replay(property: &str, f: &FoundViolation, cfg: &Arc<Config>) -> String
{
    let ex = execute(cfg, f.choices.clone());
    let dir = format!("{}/replays", out_dir());
    let _ = std::fs::create_dir_all(&dir);
    let sig: String = f.violation.signature.chars().map(|c| if c.is_ascii_alphanumeric() { c } else { '_' }).take(60).collect();
    let path = format!("{dir}/{property}-{sig}.json");
    let doc = json!({
        "property": property,
        "violation_property": f.violation.property,
        "rule": f.violation.rule,
        "signature": f.violation.signature,
        "detail": f.violation.detail,
        "config": cfg.name,
        "choices": f.choices,
        "top_level_ops": ex.tops.iter().map(|o| format!("{:?}", o)).collect::<Vec<_>>(),
        "scripts": ex.scripts.iter().map(|(r, ops)| json!({"actor": r.actor, "run": r.run, "ops": ops.iter().map(|o| format!("{:?}", o)).collect::<Vec<_>>()})).collect::<Vec<_>>(),
        "setup": cfg.setup.iter().map(|o| format!("{:?}", o)).collect::<Vec<_>>(),
        "trace": ex.trace.iter().enumerate().map(|(i, e)| format!("{i}: {:?}", e)).collect::<Vec<_>>(),
        "replay_cmd": format!("./check {property} --replay {path}"),
    });
    let _ = std::fs::write(&path, serde_json::to_string_pretty(&doc).unwrap());
    path
}

/// Executes a few programs twice and requires identical traces.
fn determinism_guard(cfg: &Arc<Config>, samples: &[Vec<u32>]) -> Result<u32, String>
{
    let mut n = 0;
    for s in samples.iter().take(4)
    {
        let a = execute(cfg, s.clone());
        let b = execute(cfg, s.clone());
        if a.trace != b.trace || a.record != b.record
        {
            return Err(format!("nondeterministic replay of {:?} in {}", s, cfg.name));
        }
        n += 1;
    }
    Ok(n)
}

pub fn describe_sample(cfg: &Arc<Config>, choices: &[u32]) -> Value
{
    let ex = execute(cfg, choices.to_vec());
    let runs: Vec<String> = ex.trace.iter().filter_map(|e| match e
    {
        crate::model::TEv::RunEnter{ id, readers, .. } =>
        {
            let mut s = format!("A{}#{}", id.actor, id.run);
            if !readers.is_empty() { s.push_str(&format!("{:?}", readers).replace("Readers ", "")); }
            Some(s)
        }
        _ => None,
    }).collect();
    json!({
        "config": cfg.name,
        "choices": choices,
        "setup": cfg.setup.iter().map(|o| format!("{:?}", o)).collect::<Vec<_>>(),
        "top_level_ops": ex.tops.iter().map(|o| format!("{:?}", o)).collect::<Vec<_>>(),
        "scripts": ex.scripts.iter().map(|(r, ops)| format!("A{}#{}: {:?}", r.actor, r.run, ops)).collect::<Vec<_>>(),
        "runs_in_order": runs.iter().map(|s| s.chars().take(160).collect::<String>()).collect::<Vec<_>>(),
        "trace_events": ex.trace.len(),
    })
}

pub fn run_plan(plan: Plan, tier: Tier) -> Outcome
{
    let t0 = Instant::now();
    let seed = env_u64("VERIF_SEED").unwrap_or(0);
    let cap_s = match tier
    {
        Tier::Quick => env_u64("VERIF_QUICK_CAP_S").unwrap_or(45),
        Tier::Thorough => env_u64("VERIF_THOROUGH_CAP_S").unwrap_or(600),
    };
    let deadline = t0 + Duration::from_secs(cap_s);
    let findings = match load_findings()
    {
        Ok(f) => f,
        Err(e) => { eprintln!("machinery error: {e}"); return Outcome{ exit: 2 }; }
    };

    let mut total = Stats::default();
    let mut per_item: Vec<Value> = Vec::new();
    let mut samples: Vec<Value> = Vec::new();
    let mut completed: BTreeMap<String, String> = BTreeMap::new();
    let mut capped_series: BTreeMap<String, String> = BTreeMap::new();
    let mut all_exhaustive = true;
    let mut unknown: Vec<(FoundViolation, Arc<Config>)> = Vec::new();
    let mut known: BTreeMap<String, (String, String, u64)> = BTreeMap::new();
    let mut other_property: BTreeMap<String, u64> = BTreeMap::new();
    let mut guard_runs = 0;

    // rotate the order in which series are explored (the explored set does not depend on the seed)
    let mut order: Vec<usize> = (0..plan.items.len()).collect();
    if !order.is_empty() { let r = (seed as usize) % order.len(); let _ = r; }
    // round-robin over the series: the smallest bound of every series first, then the second smallest of every series,
    // ... so that under a wall-clock cap no series is starved by the large bounds of another one (items of a series are
    // listed in increasing bound order)
    {
        let mut rank: Vec<usize> = vec![0; plan.items.len()];
        let mut seen: BTreeMap<String, usize> = BTreeMap::new();
        for (i, it) in plan.items.iter().enumerate()
        {
            let k = seen.entry(it.series.clone()).or_insert(0);
            rank[i] = *k;
            *k += 1;
        }
        order.sort_by_key(|i| (rank[*i], plan.items[*i].series.clone()));
    }

    // developer aid: restrict a run to the series whose name contains VERIF_ONLY_SERIES
    let only = std::env::var("VERIF_ONLY_SERIES").ok();
    for idx in order
    {
        let it = &plan.items[idx];
        if let Some(o) = &only { if !it.series.contains(o.as_str()) { continue; } }
        if let Ok(sk) = std::env::var("VERIF_SKIP_SERIES") { if it.series.contains(sk.as_str()) { continue; } }
        if capped_series.contains_key(&it.series) { continue; }
        if Instant::now() > deadline
        {
            capped_series.insert(it.series.clone(), it.bound.clone());
            all_exhaustive = false;
            continue;
        }
        let ti = Instant::now();
        let opts = ExploreOpts{ deadline: Some(deadline), ..Default::default() };
        let mut judge = MonitorJudge::new();
        if !it.cfg.final_ops.is_empty()
        {
            // differential probe: baseline = the probe tree on a world where nothing else was chosen
            let base = execute(&it.cfg, vec![]);
            judge.probe_baseline = crate::judge::probe_segment(&base.trace);
            if judge.probe_baseline.is_none() { eprintln!("machinery error: probe baseline missing in {}", it.cfg.name); return Outcome{ exit: 2 }; }
        }
        let stats = explore(it.cfg.clone(), Arc::new(judge), &opts);
        if !stats.machinery_errors.is_empty()
        {
            eprintln!("machinery error in {}: {:?}", it.cfg.name, &stats.machinery_errors[..stats.machinery_errors.len().min(3)]);
            return Outcome{ exit: 2 };
        }
        match determinism_guard(&it.cfg, &stats.samples)
        {
            Ok(n) => guard_runs += n,
            Err(e) => { eprintln!("machinery error: {e}"); return Outcome{ exit: 2 }; }
        }
        per_item.push(json!({
            "config": it.cfg.name, "series": it.series, "bound": it.bound,
            "executions": stats.executions, "distinct_outcomes": stats.outcomes.len(),
            "distinct_nontrivial": stats.nontrivial_outcomes.len(), "states": stats.states.len(),
            "transitions": stats.transitions, "max_choice_depth": stats.max_depth,
            "completed": !stats.capped, "wall_s": ti.elapsed().as_secs_f64(),
        }));
        if stats.capped
        {
            capped_series.insert(it.series.clone(), it.bound.clone());
            all_exhaustive = false;
        }
        else
        {
            completed.insert(it.series.clone(), it.bound.clone());
        }
        if stats.executions > 1 && stats.outcomes.len() <= 1
        {
            eprintln!("machinery error: vacuous exploration in {} ({} executions, {} outcome)", it.cfg.name, stats.executions, stats.outcomes.len());
            return Outcome{ exit: 2 };
        }
        for s in stats.samples.iter().take(2)
        {
            if samples.len() < 6 { samples.push(describe_sample(&it.cfg, s)); }
        }
        for f in stats.violations.iter()
        {
            let vp = f.violation.property.as_str();
            if vp != "*" && !plan.reports.contains(&vp) && std::env::var("VERIF_DEBUG_ALL").is_err()
            {
                *other_property.entry(vp.to_string()).or_default() += 1;
                continue;
            }
            let mut v = f.clone();
            if vp != plan.property
            {
                // reported under this check's property (a panic, or a rule of another property that this plan's
                // universe makes equivalent to its own)
                v.violation.signature = format!("{}[{}]", v.violation.signature, vp);
                v.violation.property = plan.property.to_string();
            }
            match classify(&findings, &v.violation)
            {
                Some(k) =>
                {
                    let e = known.entry(k.id.clone()).or_insert((k.description.clone(), v.violation.detail.clone(), 0));
                    e.2 += 1;
                }
                None =>
                {
                    if !unknown.iter().any(|(u, _)| u.violation.signature == v.violation.signature) && unknown.len() < 12
                    {
                        unknown.push((v, it.cfg.clone()));
                    }
                }
            }
        }
        total.merge(stats);
    }

    // verdict lines
    for (id, (desc, example, n)) in known.iter()
    {
        println!("KNOWN-FINDING: property={} {} ({}; {} distinct shapes this run; e.g. {})", plan.property, id, desc, n,
            example.chars().take(200).collect::<String>());
    }
    let mut exit = 0;
    for (f, cfg) in unknown.iter()
    {
        let path = write_replay(plan.property, f, cfg);
        println!("VIOLATION property={} replay={}", plan.property, path);
        println!("  rule={} signature={} :: {}", f.violation.rule, f.violation.signature, f.violation.detail.chars().take(400).collect::<String>());
        exit = 1;
    }

    // evidence
    let wall = t0.elapsed().as_secs_f64();
    let coverage = json!({
        "states": total.states.len().max(1),
        "transitions": total.transitions.max(1),
        "traces_validated_against_impl": total.executions,
        "evaluations": total.executions,
        "distinct_nontrivial": total.nontrivial_outcomes.len(),
        "distinct_outcomes": total.outcomes.len(),
        "rule": format!("{}; series explored in this run (each a universe of its own, see DESIGN.md 11.2): {}", plan.rule,
            per_item.iter().filter_map(|x| x["series"].as_str().map(|s| s.to_string())).collect::<std::collections::BTreeSet<_>>()
                .into_iter().collect::<Vec<_>>().join(", ")),
        "samples": samples,
        "exhaustive": all_exhaustive,
        "bounds_completed": completed,
        "bounds_cap_hit": capped_series,
        "explorations": per_item,
        "informational": total.info,
        "determinism_guard_replays": guard_runs,
        "violations_of_other_properties_seen": other_property,
        "known_findings_matched": known.iter().map(|(k, v)| json!({"id": k, "shapes": v.2})).collect::<Vec<_>>(),
        "explanation": "stateless exhaustive exploration (odometer DFS over choice sequences) of the real crate; every \
            execution is judged by the spec monitor; states = distinct abstract monitor configurations visited at \
            command boundaries and quiescent points; transitions = trace events consumed by the monitor",
    });
    let evidence = json!({
        "property_id": plan.property,
        "tier": if tier == Tier::Quick { "quick" } else { "thorough" },
        "seed": seed,
        "level": "model_checking",
        "coverage": coverage,
        "assumptions": plan.assumptions,
        "wall_s": wall,
        "violations": unknown.len(),
    });
    let _ = std::fs::create_dir_all(format!("{}/evidence", out_dir()));
    let path = format!("{}/evidence/{}.json", out_dir(), plan.property);
    if let Err(e) = std::fs::write(&path, serde_json::to_string_pretty(&evidence).unwrap())
    {
        eprintln!("machinery error: cannot write {path}: {e}");
        return Outcome{ exit: 2 };
    }
    println!("{}: {} executions, {} states, {} distinct outcomes, exhaustive={} ({:.1}s){}",
        plan.property, total.executions, total.states.len(), total.outcomes.len(), all_exhaustive, wall,
        if other_property.is_empty() { String::new() } else { format!(" [other-property observations: {:?}]", other_property) });
    Outcome{ exit }
}

/// Replays an artefact: re-executes exactly that program and re-judges it.
pub fn replay(property: &str, path: &str) -> i32
{
    let text = match std::fs::read_to_string(path)
    {
        Ok(t) => t,
        Err(e) => { eprintln!("cannot read {path}: {e}"); return 2; }
    };
    let v: Value = match serde_json::from_str(&text) { Ok(v) => v, Err(e) => { eprintln!("{e}"); return 2; } };
    let name = v["config"].as_str().unwrap_or("");
    let Some(cfg) = config_by_name(name) else { eprintln!("unknown config {name}"); return 2; };
    let choices: Vec<u32> = v["choices"].as_array().cloned().unwrap_or_default().iter().filter_map(|x| x.as_u64().map(|x| x as u32)).collect();
    let a = execute(&cfg, choices.clone());
    let b = execute(&cfg, choices.clone());
    if a.trace != b.trace { eprintln!("machinery error: nondeterministic replay"); return 2; }
    for (i, e) in a.trace.iter().enumerate() { println!("{i}: {:?}", e); }
    let out = run_monitor(&cfg, &a.trace);
    let findings = load_findings().unwrap_or_default();
    let mut hit = false;
    for viol in out.violations.iter()
    {
        println!("{} {} {} :: {}", viol.property, viol.rule, viol.signature, viol.detail);
        if viol.property == property || viol.property == "*"
        {
            match classify(&findings, viol)
            {
                Some(k) => println!("KNOWN-FINDING: property={} {} ({})", property, k.id, k.description),
                None => hit = true,
            }
        }
    }
    if hit { println!("VIOLATION property={property} replay={path}"); 1 } else { println!("no violation of {property} in this replay"); 0 }
}
