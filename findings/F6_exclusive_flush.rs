//! Reproduction of known finding F6 / F6b against the real crate (not part of any check; the checks find the same
//! behaviour through the `excl-flush` series of C03 and C05).
//!
//! To run: copy to /repo/tests/test/f6_exclusive_flush.rs, add `mod f6_exclusive_flush;` to /repo/tests/test/mod.rs,
//! `cargo test --offline --workspace f6_ -- --nocapture`. Both asserts fail on the pinned tree.
use bevy::prelude::*;
use bevy::ecs::system::SystemState;
use bevy_cobweb::prelude::*;

#[derive(Resource, Default)]
struct Log(Vec<String>);

struct Ev(u32);

fn excl_reactor(world: &mut World, st: &mut SystemState<BroadcastEvent<Ev>>)
{
    let before = st.get(world).try_read().map(|e| e.0).ok();
    world.flush(); // any World::syscall / World::react / World::broadcast does the same
    let after = st.get(world).try_read().map(|e| e.0).ok();
    world.resource_mut::<Log>().0.push(format!("{:?} {:?}", before, after));
}

fn excl_sysevent(world: &mut World, st: &mut SystemState<SystemEvent<u32>>)
{
    world.flush();
    let got = st.get_mut(world).take().ok();
    world.resource_mut::<Log>().0.push(format!("{:?}", got));
}

#[test]
fn f6_broadcast_readable_for_the_whole_run_of_an_exclusive_reactor()
{
    let mut app = App::new();
    app.add_plugins(ReactPlugin).init_resource::<Log>();
    let world = app.world_mut();
    world.react(|rc| { rc.on_persistent(broadcast::<Ev>(), excl_reactor); });
    world.react(|rc| rc.broadcast(Ev(7)));
    // C03: during the run caused by the broadcast the reader returns the broadcast's payload
    assert_eq!(world.resource::<Log>().0, vec!["Some(7) Some(7)".to_string()]);
}

#[test]
fn f6_system_event_not_released_before_its_exclusive_reader_has_read_it()
{
    let mut app = App::new();
    app.add_plugins(ReactPlugin).init_resource::<Log>();
    let world = app.world_mut();
    let sc = world.spawn_system_command(excl_sysevent);
    world.send_system_event(sc, 5u32);
    // C05: the payload is not dropped while its scheduled reader has yet to read it
    assert_eq!(world.resource::<Log>().0, vec!["Some(5)".to_string()]);
}
